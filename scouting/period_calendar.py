import warnings; warnings.filterwarnings("ignore")
import random, collections, datetime as dt, calendar
import irispie as ir
from irispie.dates import PERIOD_CLASS_FROM_FREQUENCY_RESOLUTION as PC, Frequency as F
rnd = random.Random(0)
FREQS = [F.YEARLY, F.HALFYEARLY, F.QUARTERLY, F.MONTHLY, F.DAILY, F.INTEGER]
def rand_serial(f):
    if f is F.DAILY: return dt.date(rnd.choice([1999,2000,2019,2020,2021,2024,1900,2100]), rnd.randint(1,12), rnd.randint(1,28)).toordinal()+rnd.randint(-3,3)
    if f is F.INTEGER: return rnd.randint(-50,50)
    return rnd.choice([1999,2000,2019,2020,2021,5,9998])*f.value + rnd.randint(0,f.value-1)
def P(f,s): return PC[f](s)
def ymd_start(f,s):
    if f is F.DAILY: d=dt.date.fromordinal(s); return d
    y, seg = divmod(s, f.value); m = (seg*12)//f.value+1; return dt.date(y,m,1)
def ymd_end(f,s):
    if f is F.DAILY: return dt.date.fromordinal(s)
    y, seg = divmod(s, f.value); m = ((seg+1)*12)//f.value; return dt.date(y,m,calendar.monthrange(y,m)[1])
fails = collections.Counter(); ex={}
def rec(k,m): fails[k]+=1; ex.setdefault(k,m)
for trial in range(20000):
    f = rnd.choice(FREQS); s = rand_serial(f)
    try: p = P(f,s)
    except Exception as e: rec("ctor_"+type(e).__name__, (f.name,s)); continue
    n = rnd.randint(-400,400)
    try:
        if (p+n).serial != s+n or (n+p).serial!=s+n or (p-n).serial!=s-n or ((p+n)-p)!=n or not (p+((p+n)-p)==p+n): rec("arith",(f.name,s,n))
        q_ = P(f, s+n)
        if (p<q_)!=(s<s+n) or (p<=q_)!=(s<=s+n) or (p==q_)!=(n==0) or (p!=q_)!=(n!=0) or (p>q_)!=(n<0) or (p>=q_)!=(n<=0): rec("order",(f.name,s,n))
        if (hash(p)==hash(P(f,s))) is False: rec("hash",(f.name,s))
        if f is not F.INTEGER:
            if dt.date(*p.to_ymd(position="start"))!=ymd_start(f,s): rec("ymd_start",(f.name,s,p.to_ymd(position="start"),ymd_start(f,s)))
            if dt.date(*p.to_ymd(position="end"))!=ymd_end(f,s): rec("ymd_end",(f.name,s,p.to_ymd(position="end"),ymd_end(f,s)))
            # tiling
            if dt.date(*p.to_ymd(position="end"))+dt.timedelta(days=1) != dt.date(*(p+1).to_ymd(position="start")): rec("tiling",(f.name,s))
            if p.year != ymd_start(f,s).year: rec("year",(f.name,s,p.year))
            try:
                seg = p.segment
                expseg = (s % f.value + 1) if f is not F.DAILY else (dt.date.fromordinal(s)-dt.date(dt.date.fromordinal(s).year,1,1)).days+1
                if seg!=expseg: rec("segment",(f.name,s,seg,expseg))
            except Exception as e: rec("segment_"+type(e).__name__+"_"+f.name,(f.name,s,str(e)[:60]))
            for kw in ("yoy","soy","eopy","tty"):
                try:
                    r = p.shift(kw)
                    if kw=="yoy":
                        exp = s - f.value
                        if f is F.DAILY: exp = s-365
                    elif kw=="soy":
                        exp = (s//f.value)*f.value if f is not F.DAILY else dt.date(dt.date.fromordinal(s).year,1,1).toordinal()
                    elif kw=="eopy":
                        exp = (s//f.value)*f.value-1 if f is not F.DAILY else dt.date(dt.date.fromordinal(s).year-1,12,31).toordinal()
                    elif kw=="tty":
                        first = (s % f.value==0) if f is not F.DAILY else (dt.date.fromordinal(s).timetuple().tm_yday==1)
                        exp = None if first else s-1
                    got = None if r is None else r.serial
                    if got!=exp: rec("shift_"+kw+"_"+f.name,(f.name,s,got,exp))
                except Exception as e: rec("shift_"+kw+"_"+type(e).__name__+"_"+f.name,(f.name,s,str(e)[:60]))
        # mixing
        g = rnd.choice([x for x in FREQS if x is not f])
        try:
            _ = p < P(g, rand_serial(g)); rec("mix_not_rejected",(f.name,g.name))
        except ir.wrongdoings.IrisPieError if hasattr(ir,'wrongdoings') else Exception: pass
        except Exception as e: rec("mix_"+type(e).__name__,(f.name,g.name))
    except Exception as e:
        rec("EXC_"+type(e).__name__,(f.name,s,n,str(e)[:80]))
for k,v in fails.most_common(): print(v,k,ex[k])
print("done")
