import warnings; warnings.filterwarnings("ignore")
import random, collections
import irispie as ir
from irispie.dates import PERIOD_CLASS_FROM_FREQUENCY_RESOLUTION as PC, Frequency as F
rnd = random.Random(1)
FREQS = [F.YEARLY, F.HALFYEARLY, F.QUARTERLY, F.MONTHLY, F.DAILY, F.INTEGER]
fails = collections.Counter(); ex={}
def rec(k,m): fails[k]+=1; ex.setdefault(k,m)
def sign(x): return (x>0)-(x<0)
class SM:
    def __init__(s,f,a,b,st): s.f,s.a,s.b,s.st=f,a,b,st
    def rng(s): return range(s.a, s.b+sign(s.st), s.st)
    def copy(s): return SM(s.f,s.a,s.b,s.st)
def mk():
    f = rnd.choice(FREQS); a = rnd.randint(700000,740000) if f is F.DAILY else rnd.randint(-20,20) if f is F.INTEGER else 2000*f.value+rnd.randint(-30,30)
    n = rnd.randint(-6,10); st = rnd.choice([1,1,1,-1,-1,2,-2,3])
    b = a+n
    return ir.Span(PC[f](a), PC[f](b), st), SM(f,a,b,st)
def check(sp, m, ctx):
    r = m.rng()
    try:
        if len(sp)!=len(r): return f"{ctx}: len {len(sp)} vs {len(r)}"
        got = [p.serial for p in sp]
        if got!=list(r): return f"{ctx}: iter {got[:4]} vs {list(r)[:4]}"
        if [p.serial for p in sp]!=got: return f"{ctx}: second iteration differs"
        if sp.start.serial!=m.a or sp.end.serial!=m.b or sp.step!=m.st: return f"{ctx}: endpoints"
        if sp.direction != ("forward" if m.st>0 else "backward"): return f"{ctx}: direction"
        if len(r):
            i = rnd.randrange(-len(r), len(r))
            if sp[i].serial!=r[i]: return f"{ctx}: getitem"
            sl = slice(rnd.randint(-3,3), rnd.randint(-3,8), rnd.choice([None,1,2,-1]))
            if [p.serial for p in sp[sl]] != list(r)[sl]: return f"{ctx}: slice {sl} {[p.serial for p in sp[sl]]} vs {list(r)[sl]}"
            base = PC[m.f](m.a + rnd.randint(-5,5))
            d = sp - base
            if list(d) != [x-base.serial for x in r]: return f"{ctx}: span-period {list(d)} vs {[x-base.serial for x in r]}"
        if type(sp.start).frequency is not m.f: return f"{ctx}: freq"
    except Exception as e:
        return f"{ctx}: EXC {type(e).__name__} {str(e)[:60]}"
for trial in range(5000):
    pop = [mk() for _ in range(3)]
    for step in range(8):
        i = rnd.randrange(len(pop)); sp, m = pop[i]
        snap = [(repr(x), mm.copy()) for x,mm in pop]
        op = rnd.choice(["reverse","shift","shift_start","shift_end","add","sub","reversed","copy","rshift","fromends","pow"])
        new=None
        try:
            k = rnd.randint(-4,4)
            if op=="reverse": sp.reverse(); m.a,m.b,m.st = m.b,m.a,-m.st
            elif op=="shift": sp.shift(k); m.a+=k; m.b+=k
            elif op=="shift_start": sp.shift_start(k); m.a+=k
            elif op=="shift_end": sp.shift_end(k); m.b+=k
            elif op=="add": new=(sp+k if rnd.random()<.5 else k+sp, SM(m.f,m.a+k,m.b+k,m.st))
            elif op=="sub": new=(sp-k, SM(m.f,m.a-k,m.b-k,m.st))
            elif op=="reversed": new=(sp.reversed(), SM(m.f,m.b,m.a,-m.st))
            elif op=="copy": new=(sp.copy(), m.copy())
            elif op=="rshift":
                st = rnd.choice([1,2,3]); 
                if m.st>0: new=(sp>>st, SM(m.f,m.a,m.b,st))
                else: new=(sp<<-st, SM(m.f,m.a,m.b,-st))
            elif op=="fromends":
                j = rnd.randrange(len(pop)); o,om = pop[j]
                if om.f is not m.f: continue
                new=(ir.Span(sp.start, o.end, m.st), SM(m.f,m.a,om.b,m.st))
            elif op=="pow":
                n = rnd.choice([-4,-2,2,3,5]); p = sp.start
                new=(p**n, SM(m.f, m.a, m.a+n-sign(n), sign(n)))
        except Exception as e:
            rec(op+"_EXC_"+type(e).__name__, str(e)[:80]); break
        msg = check(sp,m,op)
        if msg: rec(msg.split(":")[0]+":"+msg.split(":")[1].split()[0], msg); break
        if new:
            msg = check(new[0],new[1],op+"_result")
            if msg: rec(msg.split(":")[0]+":"+msg.split(":")[1].split()[0], msg); break
        for kx,(x,mm) in enumerate(pop):
            if kx==i: continue
            if repr(x)!=snap[kx][0]: rec(op+"_isolation", (snap[kx][0], repr(x))); break
        if new and len(pop)<6: pop.append(new)
for k,v in fails.most_common(): print(v,k,ex[k])
print("done")
