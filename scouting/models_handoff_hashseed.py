import warnings; warnings.filterwarnings("ignore")
import sys, json, io, contextlib
import irispie as ir, numpy as np
q = ir.qq
src_seq = "!parameters\n c0, ss\n!equations\n pct(x) = c0*pct(x[-1]) + (1-c0)*ss + res_x;\n y = x + x[-1] + w;\n"
def build():
    m = ir.Sequential.from_string(src_seq); m.assign(c0=0.8, ss=0.5); return m
def observe(m):
    d = ir.Databox(); d["x"] = ir.Series(start=q(2020,1)-2, values=(1.0,)*10); d["w"] = ir.Series(start=q(2020,1)-2, values=tuple(float(i) for i in range(10)))
    s = m.simulate(d, q(2020,1)>>q(2021,4))
    return {k: s[k].data.T.tolist() for k in sorted(s.keys()) if isinstance(s[k], ir.Series)}
if sys.argv[1] == "save":
    m = build(); ir.save("seq.dill", m)
    v = ir.RedVAR(["x","z"], order=1); rng = np.random.default_rng(0); db = ir.Databox()
    data = rng.normal(size=(40,2)); db["x"]=ir.Series(start=q(2000,1), values=data[:,0]); db["z"]=ir.Series(start=q(2000,1), values=data[:,1])
    v.estimate(db, q(2000,2)>>q(2009,4)); ir.save("var.dill", v)
    json.dump({"seq": observe(m), "var": np.asarray(v.get_mean()).tolist(), "names": list(m.all_names)}, open("obs_a.json","w"))
else:
    m = ir.load("seq.dill"); v = ir.load("var.dill")
    a = json.load(open("obs_a.json"))
    b = {"seq": observe(m), "var": np.asarray(v.get_mean()).tolist(), "names": list(m.all_names)}
    print("seq equal:", json.dumps(a["seq"])==json.dumps(b["seq"]), "var equal:", a["var"]==b["var"], "names equal:", a["names"]==b["names"])
    print("fresh names under this hashseed:", list(build().all_names), "loaded:", b["names"])
