import warnings; warnings.filterwarnings("ignore")
import random, traceback, collections
import irispie as ir, numpy as np
q = ir.qq
BASE = q(2020,1)
class M:
    """reference: dict serial->np.array(nv)"""
    def __init__(s, nv=1, cells=None): s.nv=nv; s.cells=dict(cells or {})
    def copy(s): return M(s.nv, {k: v.copy() for k,v in s.cells.items()})
    def get(s, t):
        return s.cells.get(t, np.full(s.nv, np.nan))
    def norm(s):
        # drop all-nan rows at... keep only rows with any non-nan (interior all-nan rows are equivalent to missing)
        return {k: v for k, v in s.cells.items() if not np.all(np.isnan(v))}
    def span(s):
        n = s.norm()
        return (min(n), max(n)) if n else None
def check(real, mod, ctx, strict_trim=True):
    n = mod.norm()
    if real.num_variants != mod.nv: return f"{ctx}: nv {real.num_variants} vs {mod.nv}"
    sp = mod.span()
    if sp is None:
        if real.data.size and not np.all(np.isnan(real.data)): return f"{ctx}: expected empty, got data"
        if strict_trim and real.start is not None: return f"{ctx}: expected no start, got {real.start}"
        return None
    if real.start is None: return f"{ctx}: real empty but model has {sp}"
    rs, re_ = real.start.serial, real.start.serial + real.data.shape[0] - 1
    if strict_trim and (rs, re_) != sp: return f"{ctx}: span {(rs,re_)} vs {sp}"
    if rs > sp[0] or re_ < sp[1]: return f"{ctx}: span {(rs,re_)} does not cover {sp}"
    for t in range(min(rs, sp[0]), max(re_, sp[1])+1):
        rv = real.data[t-rs] if rs <= t <= re_ else np.full(mod.nv, np.nan)
        mv = mod.get(t)
        if not np.allclose(rv, mv, equal_nan=True, rtol=1e-12, atol=0): return f"{ctx}: t={t} {rv} vs {mv}"
    return None
rnd = random.Random(0)
def P(s): return type(BASE)(s)
def rand_series():
    nv = rnd.choice([1,1,2,3]); n = rnd.randint(0,6); st = BASE.serial + rnd.randint(-5,5)
    vals = np.array([[rnd.choice([np.nan, rnd.randint(-5,9)+rnd.choice([0,.5])]) for _ in range(nv)] for _ in range(n)], dtype=float).reshape(n, nv)
    if n==0: return ir.Series(num_variants=nv), M(nv)
    s = ir.Series(num_variants=nv, start=P(st), values=vals)
    return s, M(nv, {st+i: vals[i].copy() for i in range(n)})
fails = collections.Counter(); examples = {}
def record(kind, msg):
    fails[kind]+=1; examples.setdefault(kind, msg)
for trial in range(3000):
    pop = [rand_series() for _ in range(3)]
    for step in range(6):
        i = rnd.randrange(len(pop)); s, m = pop[i]
        op = rnd.choice(["set","setspan","shift","clip","overlay","underlay","add","mul","addscalar","neg","hstack","copy","fshift","call","log","nansum","movsum","fill"])
        snap = [(x.start, x.data.copy(), mm.copy()) for x, mm in pop]
        try:
            strict=True; newobj=None
            if op=="set":
                t = BASE.serial+rnd.randint(-8,8); v = rnd.choice([np.nan, float(rnd.randint(-3,3))])
                s[P(t)] = v; m.cells[t] = np.full(m.nv, v)
            elif op=="setspan":
                a = BASE.serial+rnd.randint(-8,8); n=rnd.randint(1,4); vals = np.array([[rnd.choice([np.nan, float(rnd.randint(-3,3))]) for _ in range(m.nv)] for _ in range(n)])
                s[P(a)>>P(a+n-1)] = vals
                for k in range(n): m.cells[a+k] = vals[k].copy()
            elif op=="shift":
                by = rnd.randint(-3,3); s.shift(by); m.cells = {k-by: v for k,v in m.cells.items()}
            elif op=="clip":
                if s.start is None: continue
                a = BASE.serial+rnd.randint(-8,8); b = a+rnd.randint(0,6)
                s.clip(P(a), P(b)); m.cells = {k:v for k,v in m.cells.items() if a<=k<=b}; strict=False
            elif op in ("overlay","underlay"):
                j = rnd.randrange(len(pop)); o, om = pop[j]
                if j==i or om.nv!=m.nv: continue
                if o.start is None or s.start is None: continue
                getattr(s, op)(o)
                if op=="overlay":
                    sp = om.span()
                    if o.start is not None:
                        os_, oe = o.start.serial, o.start.serial+o.data.shape[0]-1
                        for t in range(os_, oe+1): m.cells[t] = om.get(t).copy()
                else:
                    ss_, se = s.start.serial if s.start else None, None
                    new = {}
                    # other's own span underneath, self's span on top
                    os_, oe = o.start.serial, o.start.serial+o.data.shape[0]-1
                    for t in range(os_, oe+1): new[t] = om.get(t).copy()
                    # self span before op = snap
                    st0, d0, m0 = snap[i]
                    if st0 is not None:
                        for t in range(st0.serial, st0.serial+d0.shape[0]): new[t] = m0.get(t).copy()
                    m.cells = new
            elif op in ("add","mul"):
                j = rnd.randrange(len(pop)); o, om = pop[j]
                if om.nv!=m.nv: continue
                if s.start is None and o.start is None: continue
                f = {"add": np.add, "mul": np.multiply}[op]
                r = (s+o) if op=="add" else (s*o)
                keys = set(m.cells)|set(om.cells)
                newobj = (r, M(m.nv, {t: f(m.get(t), om.get(t)) for t in keys}))
            elif op=="addscalar":
                r = s + 2.5; newobj = (r, M(m.nv, {t: v+2.5 for t,v in m.cells.items()}))
            elif op=="neg":
                r = -s; newobj = (r, M(m.nv, {t: -v for t,v in m.cells.items()}))
            elif op=="hstack":
                j = rnd.randrange(len(pop)); o, om = pop[j]
                r = s | o
                keys = set(m.norm())|set(om.norm())
                newobj = (r, M(m.nv+om.nv, {t: np.concatenate([m.get(t), om.get(t)]) for t in keys}))
            elif op=="copy":
                r = s.copy(); newobj=(r, m.copy())
            elif op=="fshift":
                by = rnd.randint(-3,3); r = ir.shift(s, by); newobj=(r, M(m.nv, {k-by: v.copy() for k,v in m.cells.items()}))
            elif op=="call":
                a = BASE.serial+rnd.randint(-8,8); b = a+rnd.randint(0,6)
                r = s(P(a)>>P(b)); newobj=(r, M(m.nv, {k:v.copy() for k,v in m.cells.items() if a<=k<=b}))
            elif op=="log":
                r = ir.log(s); newobj=(r, M(m.nv, {k: np.log(v) for k,v in m.cells.items()})); 
            elif op=="nansum":
                if s.data.size==0: continue
                r = ir.nansum(s)
                if s.start is None or s.data.size==0: newobj=None
                else:
                    newobj=(r, M(1, {t: np.array([np.nansum(m.get(t))]) for t in range(s.start.serial, s.start.serial+s.data.shape[0])}))
            elif op=="movsum":
                w = rnd.randint(1,3)
                if s.data.size==0: continue
                r = ir.mov_sum(s, -w)
                if s.start is None or s.data.size==0: newobj=None
                else:
                    newobj=(r, M(m.nv, {t: sum(m.get(t-k) for k in range(w)) for t in range(s.start.serial, s.start.serial+s.data.shape[0])}))
            elif op=="fill":
                r = ir.fill_missing(s, "constant", 0.0)
                if s.start is None or s.data.size==0: newobj=None
                else: newobj=(r, M(m.nv, {t: np.where(np.isnan(m.get(t)), 0.0, m.get(t)) for t in range(s.start.serial, s.start.serial+s.data.shape[0])}))
            mutating = op in ("set","setspan","shift","clip","overlay","underlay")
            if not mutating:
                st0, d0, m0 = snap[i]
                same_start = (s.start is None and st0 is None) or (s.start is not None and st0 is not None and s.start.serial==st0.serial)
                if not same_start or not np.array_equal(s.data, d0, equal_nan=True): record(op+"_recv_modified", "receiver modified by non-mutating op"); break
                msg = None
            else:
                msg = check(s, m, f"{op} receiver", strict_trim=op in ("set","setspan","overlay","underlay"))
            if msg: record(op, msg); break
            if newobj is not None:
                strict_new = op not in ("log","copy","fshift","nansum","movsum")
                msg = check(newobj[0], newobj[1], f"{op} result", strict_trim=strict_new)
                if msg: record(op+"_result", msg); break
            # isolation
            for k,(x,mm) in enumerate(pop):
                if k==i: continue
                st0, d0, m0 = snap[k]
                if x.start != st0 if (x.start is None or st0 is None) else x.start.serial != st0.serial: record(op+"_isol", "start changed"); break
                if not np.array_equal(x.data, d0, equal_nan=True): record(op+"_isol", f"data changed {k}"); break
            if newobj is not None and len(pop)<5: pop.append(newobj)
        except Exception as e:
            record(op+"_EXC_"+type(e).__name__, f"{str(e)[:80]} | nv={m.nv} start={s.start} shape={s.data.shape}")
            break
for k,v in fails.most_common(): print(v, k, "::", examples[k])
