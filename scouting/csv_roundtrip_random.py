import warnings; warnings.filterwarnings("ignore")
import random, traceback, collections, os
import irispie as ir, numpy as np
rnd = random.Random(0)
F = {"Y": lambda: ir.yy(rnd.randint(1990,2030)), "H": lambda: ir.hh(rnd.randint(1990,2030), rnd.randint(1,2)),
     "Q": lambda: ir.qq(rnd.randint(1990,2030), rnd.randint(1,4)), "M": lambda: ir.mm(rnd.randint(1990,2030), rnd.randint(1,12)),
     "D": lambda: ir.dd(rnd.randint(1990,2030), rnd.randint(1,12), rnd.randint(1,28)), "I": lambda: ir.ii(rnd.randint(-20,20))}
fails = collections.Counter(); ex = {}
for trial in range(400):
    db = ir.Databox(); exp = {}
    for k in range(rnd.randint(1,6)):
        f = rnd.choice(list(F)); st = F[f](); nv = rnd.choice([1,1,2,3]); n = rnd.randint(0,5)
        vals = np.array([[rnd.choice([np.nan, round(rnd.uniform(-1e3,1e3), rnd.randint(0,12)), float(rnd.randint(-5,5))]) for _ in range(nv)] for _ in range(n)], dtype=float).reshape(n,nv)
        name = f"s{k}_{f}"
        desc = rnd.choice(["", "plain", "with, comma", 'quote " inside', "  spaces  ", "uni ✓"])
        s = ir.Series(num_variants=nv, start=st, values=vals, description=desc) if n else ir.Series(num_variants=nv, description=desc)
        db[name] = s
    if rnd.random()<0.3: db["scalar"] = 1.5
    try:
        db.to_csv_file("rt.csv", description_row=True, when_empty="silent")
        db2 = ir.Databox.from_csv_file("rt.csv", description_row=True)
    except Exception as e:
        fails["EXC_"+type(e).__name__]+=1; ex.setdefault("EXC_"+type(e).__name__, (str(e)[:100], {k:(v.frequency.name, v.start, v.shape) for k,v in db.items() if isinstance(v, ir.Series)})); continue
    for name, s in db.items():
        if not isinstance(s, ir.Series): continue
        if name not in db2: 
            key = "missing_empty" if s.start is None else "missing"
            fails[key]+=1; ex.setdefault(key, (name, s.start, s.shape)); continue
        t = db2[name]
        if s.start is None:
            if t.start is not None or t.num_variants != s.num_variants: fails["empty_mismatch"]+=1; ex.setdefault("empty_mismatch",(name, s.shape, t.shape, t.start))
            continue
        if t.start is None or t.start.serial!=s.start.serial or t.frequency!=s.frequency or t.shape!=s.shape:
            fails["span"]+=1; ex.setdefault("span",(name, s.start, s.shape, t.start, t.shape)); continue
        if not np.allclose(np.round(s.data,12), t.data, equal_nan=True, rtol=0, atol=1e-12): fails["values"]+=1; ex.setdefault("values",(name,s.data.T.tolist(),t.data.T.tolist()))
        if t.get_description()!=s.get_description(): fails["desc"]+=1; ex.setdefault("desc",(s.get_description(), t.get_description()))
for k,v in fails.most_common(): print(v,k,ex[k])
print("done")
