import warnings; warnings.filterwarnings("ignore")
import io, errno, types
import irispie as ir, numpy as np
import irispie.databoxes._exports as ex, irispie.databoxes._imports as im, irispie.file_io as fio

class SimFS:
    def __init__(self): self.files = {}; self.log = []; self.fault = None; self.nwrite = 0; self.nread=0
class Raw(io.RawIOBase):
    def __init__(self, fs, path, mode):
        self.fs, self.path, self.mode = fs, path, mode
        self.pos = 0
        if "w" in mode: fs.files[path] = bytearray()
        elif path not in fs.files: raise FileNotFoundError(errno.ENOENT, "sim: no such file", path)
        if "a" in mode: self.pos = len(fs.files[path])
    def readable(self): return "r" in self.mode or "+" in self.mode
    def writable(self): return any(c in self.mode for c in "wa+")
    def seekable(self): return True
    def seek(self, off, whence=0):
        n = len(self.fs.files[self.path])
        self.pos = {0: off, 1: self.pos+off, 2: n+off}[whence]; return self.pos
    def tell(self): return self.pos
    def readinto(self, b):
        self.fs.nread += 1
        self.fs.log.append(("read", self.path, self.pos, len(b)))
        if self.fs.fault == ("read", self.fs.nread): raise OSError(errno.EIO, "sim: EIO")
        data = self.fs.files[self.path][self.pos:self.pos+min(len(b), 7)]  # short reads of 7 bytes!
        b[:len(data)] = data; self.pos += len(data); return len(data)
    def write(self, b):
        self.fs.nwrite += 1
        self.fs.log.append(("write", self.path, self.pos, len(b)))
        if self.fs.fault == ("write", self.fs.nwrite): raise OSError(errno.ENOSPC, "sim: ENOSPC")
        b = bytes(b)[:5]  # short writes of 5 bytes
        f = self.fs.files[self.path]; f[self.pos:self.pos+len(b)] = b; self.pos += len(b); return len(b)
    def truncate(self, size=None):
        size = self.pos if size is None else size
        del self.fs.files[self.path][size:]; return size
fs = SimFS()
def sim_open(path, mode="r", buffering=-1, encoding=None, errors=None, newline=None, **kw):
    fs.log.append(("open", path, mode))
    raw = Raw(fs, str(path), mode)
    binary = "b" in mode
    if raw.readable() and raw.writable(): buf = io.BufferedRandom(raw, 64)
    elif raw.writable(): buf = io.BufferedWriter(raw, 64)
    else: buf = io.BufferedReader(raw, 64)
    if binary: return buf
    return io.TextIOWrapper(buf, encoding=encoding or "utf-8", errors=errors, newline=newline)
class NpProxy:
    def __init__(self, real): self._real = real
    def __getattr__(self, n): return getattr(self._real, n)
    def genfromtxt(self, fname, *a, **k):
        if isinstance(fname, str):
            with sim_open(fname, "rt") as f: return self._real.genfromtxt(f, *a, **k)
        return self._real.genfromtxt(fname, *a, **k)
for mod in (ex, im, fio): mod.open = sim_open
im._np = NpProxy(np)
q = ir.qq
db = ir.Databox(); db["a"] = ir.Series(start=q(2020,1), values=(1.5,np.nan,3,4), description="A"); db["m"]=ir.Series(start=ir.mm(2020,1), values=np.array([[1,2],[3,4.]]))
db.to_csv_file("/sim/x.csv", description_row=True)
print(bytes(fs.files["/sim/x.csv"]).decode())
d2 = ir.Databox.from_csv_file("/sim/x.csv", description_row=True)
print({k:(v.start, v.data.T.tolist()) for k,v in d2.items()})
print("writes", fs.nwrite, "reads", fs.nread, "opens", sum(1 for e in fs.log if e[0]=="open"))
# fault on write
fs.nwrite=0; fs.fault=("write", 3)
try: db.to_csv_file("/sim/y.csv"); print("no exc!")
except OSError as e: print("write fault ->", e, "torn len", len(fs.files["/sim/y.csv"]))
fs.fault=None
try: print(ir.Databox.from_csv_file("/sim/y.csv"))
except Exception as e: print("torn read ->", type(e).__name__, e)
fs.nread=0; fs.fault=("read", 9)
try: ir.Databox.from_csv_file("/sim/x.csv", description_row=True); print("no exc!")
except OSError as e: print("read fault ->", e)
fs.fault=None
ir.save("/sim/db.dill", db); print(type(ir.load("/sim/db.dill")), len(fs.files["/sim/db.dill"]))
