import warnings; warnings.filterwarnings("ignore")
import irispie as ir, numpy as np, pickle, dill, copy
src = r"""
!transition-variables
    "Output gap" y, "Inflation" pi, r
!transition-shocks
    ey, epi, er
!parameters
    a, b, c, rho, ss_pi
!transition-equations
    y = a*y{-1} + (1-a)*y{+1} - b*(r - pi{+1}) + ey;
    pi = c*pi{-1} + (1-c)*pi{+1} + 0.1*y + epi;
    r = rho*r{-1} + (1-rho)*(ss_pi + 1.5*(pi{+1}-ss_pi) + 0.5*y) + er;
!measurement-variables
    obs_y, obs_pi
!measurement-shocks
    my
!measurement-equations
    obs_y = y + my;
    obs_pi = pi;
"""
m = ir.Simultaneous.from_string(src, linear=True)
m.assign(a=0.5, b=0.2, c=0.4, rho=0.7, ss_pi=2)
m.solve_steady()
print(m.get_steady_levels())
info = m.solve(return_info=True)
print(info)
print(m.get_eigenvalues_stability() if hasattr(m,'get_eigenvalues_stability') else None)
span = ir.qq(2020,1) >> ir.qq(2021,4)
db = ir.Databox.steady(m, span)
db["ey"][ir.qq(2020,1)] = 1
s = m.simulate(db, span, method="first_order")
print(type(s), s["y"])
m2 = m.copy()
m3 = pickle.loads(pickle.dumps(m))
m4 = dill.loads(dill.dumps(m))
p = m.to_portable()
import json
m5 = ir.Simultaneous.from_portable(json.loads(json.dumps(p)))
print(m5.get_steady_levels())
for mm in (m2,m3,m4):
    s2 = mm.simulate(db, span, method="first_order")
    print(np.array_equal(s2["y"].get_data(), s["y"].get_data()))
