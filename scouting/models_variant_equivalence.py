import warnings; warnings.filterwarnings("ignore")
import io, contextlib, random
import irispie as ir, numpy as np
src = open("t1.py").read().split('src = r"""')[1].split('"""')[0]
nl = r"""
!transition-variables
    y, k, c, a
!log-variables
    !all-but
!transition-shocks
    ea
!parameters
    alpha, beta, delta, rho, g
!transition-equations
    y = a * k{-1}^alpha;
    k = (1-delta)*k{-1} + y - c;
    1/c = beta * (1/c{+1}) * (alpha*y{+1}/k + 1 - delta);
    log(a) = rho*log(a{-1}) + (1-rho)*log(g) + ea !! a = g;
"""
rnd = random.Random(3)
span = ir.qq(2020,1) >> ir.qq(2021,4)
def quiet(f):
    with contextlib.redirect_stdout(io.StringIO()): return f()
bad=0
for trial in range(30):
    N = rnd.randint(2,3)
    P = [dict(a=rnd.uniform(.3,.7), b=rnd.uniform(.1,.4), c=rnd.uniform(.3,.7), rho=rnd.uniform(.1,.8), ss_pi=rnd.uniform(0,3)) for _ in range(N)]
    m = ir.Simultaneous.from_string(src, linear=True); m.alter_num_variants(N)
    m.assign(**{k:[p[k] for p in P] for k in P[0]})
    quiet(m.solve_steady); quiet(m.solve)
    db = ir.Databox.steady(m, span); 
    db["ey"] = ir.Series(start=span[0], values=(1.0,)); db["ant_epi"] = ir.Series(start=span[0]+3, values=(0.5,))
    s = quiet(lambda: m.simulate(db, span, method="first_order"))
    for k in range(N):
        m1 = ir.Simultaneous.from_string(src, linear=True); m1.assign(**P[k]); quiet(m1.solve_steady); quiet(m1.solve)
        db1 = ir.Databox.steady(m1, span); db1["ey"]=db["ey"]; db1["ant_epi"]=db["ant_epi"]
        s1 = quiet(lambda: m1.simulate(db1, span, method="first_order"))
        T, T1 = m._variants[k].solution.T, m1._variants[0].solution.T
        lv = {n: v[k] for n,v in m.get_steady_levels(unpack_singleton=False).items()}; lv1 = m1.get_steady_levels()
        okT = np.array_equal(T,T1); okL = all(lv[n]==lv1[n] for n in lv1.keys())
        okS = all(np.array_equal(s[n].data[:,k], s1[n].data[:,0], equal_nan=True) for n in ("y","pi","r","obs_y"))
        if not (okT and okL and okS): bad+=1; print("MISMATCH", trial, k, okT, okL, okS, np.max(np.abs(s["y"].data[:,k]-s1["y"].data[:,0])))
print("linear bad", bad)
# nonlinear
bad=0
for trial in range(10):
    N=2
    P=[dict(alpha=rnd.uniform(.25,.4), beta=rnd.uniform(.95,.99), delta=rnd.uniform(.02,.1), rho=rnd.uniform(.5,.9), g=rnd.uniform(.9,1.2)) for _ in range(N)]
    try:
        m = ir.Simultaneous.from_string(nl, flat=True); m.alter_num_variants(N)
        m.assign(**{k:[p[k] for p in P] for k in P[0]}); m.assign(y=1,k=5,c=.8,a=1)
        quiet(lambda: m.solve_steady()); quiet(m.solve)
        for k in range(N):
            m1 = ir.Simultaneous.from_string(nl, flat=True); m1.assign(**P[k]); m1.assign(y=1,k=5,c=.8,a=1); quiet(lambda: m1.solve_steady()); quiet(m1.solve)
            lv = {n: v[k] for n,v in m.get_steady_levels(unpack_singleton=False).items()}; lv1 = m1.get_steady_levels()
            d = max(abs(lv[n]-lv1[n]) for n in lv1.keys()); dT = np.max(np.abs(m._variants[k].solution.T-m1._variants[0].solution.T))
            if d>0 or dT>0: bad+=1; print("nl diff", trial,k,d,dT)
    except Exception as e: print("nl ERR", type(e).__name__, str(e)[:200]); break
print("nonlinear bad", bad, m.get_steady_levels())
