import warnings; warnings.filterwarnings("ignore")
import io, contextlib, random, pickle, dill
import irispie as ir, numpy as np
src = open("t1.py").read().split('src = r"""')[1].split('"""')[0]
span = ir.qq(2020,1) >> ir.qq(2021,4)
def obs(m):
    out = {}
    out["params"] = {k: v for k, v in m.get_parameters(unpack_singleton=False).items()}
    out["levels"] = {k: v for k, v in m.get_steady_levels(unpack_singleton=False).items()}
    sols = m.get_solution_matrices(unpack_singleton=False) if hasattr(m, "get_solution_matrices") else None
    out["nv"] = m.num_variants
    try:
        out["T"] = [np.array(v.solution.T) if v.solution is not None else None for v in m._variants]
    except Exception as e: out["T"] = repr(e)
    return out
def same(a, b):
    if a["nv"] != b["nv"]: return False
    for key in ("params","levels"):
        if a[key].keys() != b[key].keys(): return False
        for k in a[key]:
            x, y = np.array(a[key][k], dtype=float), np.array(b[key][k], dtype=float)
            if x.shape != y.shape or not np.array_equal(x, y, equal_nan=True): return False
    for x, y in zip(a["T"], b["T"]):
        if (x is None) != (y is None): return False
        if x is not None and not np.array_equal(x, y): return False
    return True
rnd = random.Random(1)
def rand_params():
    return dict(a=rnd.uniform(0.2,0.8), b=rnd.uniform(0.1,0.5), c=rnd.uniform(0.2,0.8), rho=rnd.uniform(0,0.9), ss_pi=rnd.uniform(0,4))
ops = ["assign","steady","solve","alter","assign_list"]
bad = 0
for trial in range(200):
    m = ir.Simultaneous.from_string(src, linear=True); m.assign(**rand_params())
    with contextlib.redirect_stdout(io.StringIO()):
        m.solve_steady(); m.solve()
    kind = rnd.choice(["copy","pickle","dill"])
    c = {"copy": lambda: m.copy(), "pickle": lambda: pickle.loads(pickle.dumps(m)), "dill": lambda: dill.loads(dill.dumps(m))}[kind]()
    objs = [m, c]
    for step in range(8):
        i = rnd.randrange(2); tgt, other = objs[i], objs[1-i]
        before = obs(other)
        op = rnd.choice(ops)
        with contextlib.redirect_stdout(io.StringIO()):
            if op=="assign": tgt.assign(**rand_params())
            elif op=="assign_list":
                tgt.assign(a=[rnd.uniform(0.2,0.8) for _ in range(tgt.num_variants)])
            elif op=="steady": tgt.solve_steady()
            elif op=="solve": tgt.solve()
            elif op=="alter": tgt.alter_num_variants(rnd.randint(1,3))
        after = obs(other)
        if not same(before, after):
            bad += 1; print("INTERFERENCE", trial, kind, step, op); break
print("bad", bad)
