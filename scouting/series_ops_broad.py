import warnings; warnings.filterwarnings("ignore")
import random, collections
import irispie as ir, numpy as np
from irispie.dates import PERIOD_CLASS_FROM_FREQUENCY_RESOLUTION as PC, Frequency as F
rnd = random.Random(2)
fails = collections.Counter(); ex={}
def rec(k,m): fails[k]+=1; ex.setdefault(k,m)
f = F.QUARTERLY; B = 8080
def P(s): return PC[f](s)
def mk(nv=None, n=None):
    nv = nv or rnd.choice([1,1,2,3]); n = rnd.randint(1,7) if n is None else n; st = B+rnd.randint(-4,4)
    vals = np.array([[rnd.choice([np.nan, float(rnd.randint(1,9))]) for _ in range(nv)] for _ in range(n)]).reshape(n,nv)
    s = ir.Series(num_variants=nv, start=P(st), values=vals)
    return s, {st+i: vals[i].copy() for i in range(n)}, nv
def norm(c): return {k:v for k,v in c.items() if not np.all(np.isnan(v))}
def getm(c,t,nv): return c.get(t, np.full(nv,np.nan))
def cmp(real, cells, nv, ctx, tight=False):
    n = norm(cells)
    if real.num_variants!=nv: return f"{ctx}: nv {real.num_variants} vs {nv}"
    if not n:
        if real.data.size and not np.all(np.isnan(real.data)): return f"{ctx}: expected empty"
        if tight and real.start is not None: return f"{ctx}: tight empty has start"
        return None
    if real.start is None: return f"{ctx}: real empty, model {sorted(n)[:3]}"
    rs = real.start.serial; re_ = rs+real.data.shape[0]-1
    if rs>min(n) or re_<max(n): return f"{ctx}: cover {(rs,re_)} vs {(min(n),max(n))}"
    if tight and (rs,re_)!=(min(n),max(n)): return f"{ctx}: tight {(rs,re_)} vs {(min(n),max(n))}"
    for t in range(rs, re_+1):
        if not np.allclose(real.data[t-rs], getm(cells,t,nv), equal_nan=True, rtol=1e-10, atol=1e-12): return f"{ctx}: t={t-B} {real.data[t-rs]} vs {getm(cells,t,nv)}"
def own_span(s): return (s.start.serial, s.start.serial+s.data.shape[0]-1) if s.start is not None and s.data.shape[0] else None
for trial in range(6000):
    s, c, nv = mk()
    o, oc, onv = mk(nv=nv)
    s0 = (s.start, s.data.copy()); o0=(o.start, o.data.copy())
    op = rnd.choice(["set_series","set_variant","fill_prev","fill_next","fill_near","fill_lin","fill_series","extrap","sum","mean","nanmean","max","log","sqrt","maximum","soy","eopy","tty","yoy","mov_avg","mov_prod","pct","diff","roc","div","pow","rsub","rdiv","floordiv","mod","overlay_nv","underlay_nv","expand","shrink","getitem_int","call_list","abs","round"])
    try:
        sp = own_span(s)
        if sp is None: continue
        rng_ = range(sp[0], sp[1]+1)
        if op=="set_series":
            a=B+rnd.randint(-6,6); n=rnd.randint(1,4); s[P(a)>>P(a+n-1)] = o
            for t in range(a,a+n): c[t]=getm(oc,t,nv).copy()
            m=cmp(s,c,nv,op,tight=True)
        elif op=="set_variant":
            if nv<2: continue
            a=B+rnd.randint(-6,6); v=rnd.randrange(nv); val=float(rnd.randint(1,9)); s[P(a), v]=val
            row=getm(c,a,nv).copy(); row[v]=val; c[a]=row; m=cmp(s,c,nv,op,tight=True)
        elif op.startswith("fill_"):
            meth={"fill_prev":"previous","fill_next":"next","fill_near":"nearest","fill_lin":"linear","fill_series":"from_series"}[op]
            if meth=="from_series":
                if onv!=1 and nv!=1: pass
                src = ir.Series(start=P(B-10), values=tuple(float(100+i) for i in range(30)))
                r = ir.fill_missing(s, meth, src)
                exp = {t: np.where(np.isnan(getm(c,t,nv)), 100.0+(t-(B-10)), getm(c,t,nv)) for t in rng_}
            else:
                r = ir.fill_missing(s, meth)
                exp={}
                for v in range(nv):
                    col = np.array([getm(c,t,nv)[v] for t in rng_]); obs=[i for i in range(len(col)) if not np.isnan(col[i])]
                    out=col.copy()
                    for i in range(len(col)):
                        if not np.isnan(col[i]) or not obs: continue
                        prev=[j for j in obs if j<i]; nxt=[j for j in obs if j>i]
                        if meth=="previous": out[i]=col[prev[-1]] if prev else np.nan
                        elif meth=="next": out[i]=col[nxt[0]] if nxt else np.nan
                        elif meth=="nearest":
                            j=min(obs,key=lambda j:(abs(j-i), j)); out[i]=col[j]
                        elif meth=="linear":
                            if prev and nxt: p_,n_=prev[-1],nxt[0]; out[i]=col[p_]+(col[n_]-col[p_])*(i-p_)/(n_-p_)
                            elif prev: out[i]=col[prev[-1]]
                            elif nxt: out[i]=col[nxt[0]]
                    for k,t in enumerate(rng_): exp.setdefault(t,np.full(nv,np.nan))[v]=out[k]
            m=cmp(r,exp,nv,op)
        elif op=="extrap":
            a=sp[1]+1; n=rnd.randint(1,4); rho=0.5
            r = ir.extrapolate(s, [rho], P(a)>>P(a+n-1), intercept=1.0)
            exp={t:v.copy() for t,v in c.items()}
            for t in range(a,a+n): exp[t]=rho*getm(exp,t-1,nv)+1.0
            m=cmp(r,exp,nv,op)
        elif op in("sum","mean","nanmean","max"):
            fn=getattr(np,op); r=getattr(ir,op)(s)
            exp={t:np.array([fn(getm(c,t,nv))]) for t in rng_}; m=cmp(r,exp,1,op)
        elif op in("log","sqrt","abs"):
            r=getattr(ir,op)(s); exp={t:getattr(np,op)(v) for t,v in c.items()}; m=cmp(r,exp,nv,op)
        elif op=="round":
            r=ir.round(s/3,1); exp={t:np.round(v/3,1) for t,v in c.items()}; m=cmp(r,exp,nv,op)
        elif op=="maximum":
            r=ir.maximum(s,4.5); exp={t:np.maximum(v,4.5) for t,v in c.items()}; m=cmp(r,exp,nv,op)
        elif op in("soy","eopy","tty","yoy"):
            r=ir.shift(s,op)
            if op=="yoy": exp={t+4:v for t,v in c.items()}
            elif op=="soy": exp={t:getm(c,(t//4)*4,nv) for t in rng_}
            elif op=="eopy": exp={t:getm(c,(t//4)*4-1,nv) for t in rng_}
            elif op=="tty": exp={t:(getm(c,t-1,nv) if t%4!=0 else np.full(nv,np.nan)) for t in rng_}
            m=cmp(r,exp,nv,op)
        elif op in("mov_avg","mov_prod"):
            w=rnd.randint(1,3); fn={"mov_avg":np.mean,"mov_prod":np.prod}[op]
            r=getattr(ir,op)(s,-w); exp={t:fn(np.array([getm(c,t-k,nv) for k in range(w)]),axis=0) for t in rng_}; m=cmp(r,exp,nv,op)
        elif op in("pct","diff","roc"):
            k=-rnd.randint(1,3); r=getattr(ir,op)(s,k)
            keys=set(c)|{t-k for t in c}
            fn={"diff":lambda a,b:a-b,"roc":lambda a,b:a/b,"pct":lambda a,b:100*(a/b-1)}[op]
            exp={t:fn(getm(c,t,nv),getm(c,t+k,nv)) for t in keys}; m=cmp(r,exp,nv,op,tight=True)
        elif op in("div","pow","floordiv","mod"):
            fn={"div":np.true_divide,"pow":np.power,"floordiv":np.floor_divide,"mod":np.mod}[op]
            r={"div":lambda:s/o,"pow":lambda:s**o,"floordiv":lambda:s//o,"mod":lambda:s%o}[op]()
            exp={t:fn(getm(c,t,nv),getm(oc,t,nv)) for t in set(c)|set(oc)}; m=cmp(r,exp,nv,op,tight=True)
        elif op=="rsub": r=10-s; exp={t:10-v for t,v in c.items()}; m=cmp(r,exp,nv,op)
        elif op=="rdiv": r=10/s; exp={t:10/v for t,v in c.items()}; m=cmp(r,exp,nv,op)
        elif op in("overlay_nv","underlay_nv"):
            o1,o1c,_=mk(nv=1)
            if own_span(o1) is None: continue
            r=(ir.overlay if op=="overlay_nv" else ir.underlay)(s,o1)
            osp=own_span(o1); exp={t:v.copy() for t,v in c.items()}
            if op=="overlay_nv":
                for t in range(osp[0],osp[1]+1): exp[t]=np.repeat(getm(o1c,t,1),nv)
            else:
                exp={t:np.repeat(getm(o1c,t,1),nv) for t in range(osp[0],osp[1]+1)}
                for t in rng_: exp[t]=getm(c,t,nv).copy()
            m=cmp(r,exp,nv,op,tight=True)
        elif op=="expand":
            r=s.copy(); r.alter_num_variants(nv+2); exp={t:np.concatenate([v,[v[-1],v[-1]]]) for t,v in c.items()}; m=cmp(r,exp,nv+2,op)
        elif op=="shrink":
            if nv<2: continue
            r=s.copy(); r.alter_num_variants(1); exp={t:v[:1] for t,v in c.items()}; m=cmp(r,exp,1,op)
        elif op=="getitem_int":
            k=rnd.randint(-3,3); r=s[k]; exp={t-k:v for t,v in c.items()}; m=cmp(r,exp,nv,op)
        elif op=="call_list":
            ts=[B+rnd.randint(-6,6) for _ in range(3)]; r=s([P(t) for t in ts]); exp={t:getm(c,t,nv) for t in ts}; m=cmp(r,exp,nv,op,tight=True)
        fails["_ok_"+op]+=1
        if m: rec(op, m); continue
        if op not in("set_series","set_variant"):
            if not ((s.start is s0[0] or s.start.serial==s0[0].serial) and np.array_equal(s.data,s0[1],equal_nan=True)): rec(op+"_input_modified","")
        if not (o.start.serial==o0[0].serial and np.array_equal(o.data,o0[1],equal_nan=True)) if o0[0] is not None and o.start is not None else False: rec(op+"_operand_modified","")
    except Exception as e:
        rec(op+"_EXC_"+type(e).__name__, (str(e)[:90], s.start, s.shape))
for k,v in fails.most_common(): print(v,k,ex.get(k,""))
print("done")
