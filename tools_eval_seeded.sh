#!/bin/bash
# Evaluate the checks against the seeded changes: apply each patch to a scratch worktree of /repo (outside /repo and
# /verif), point the property's quick check at it through VERIF_REPO, undo.  usage: ./tools_eval_seeded.sh [dir ...]
WT=${SEEDED_WT:-/tmp/wt-verify}
[ -d "$WT" ] || git -C /repo worktree add --detach "$WT" HEAD >/dev/null 2>&1
cd /verif
dirs=${@:-seeded/*}
for d in $dirs; do
  prop=$(basename $d | cut -d- -f1)
  git -C $WT checkout -q -- . ; git -C $WT checkout -q --detach $(git -C /repo rev-parse HEAD) ; git -C $WT apply $(pwd)/$d/patch.diff || { echo "$d APPLY-FAILED"; continue; }
  rd=$(mktemp -d /tmp/irsim-seeded-XXXX)
  out=$(VERIF_REPO=$WT VERIF_REPLAY_DIR=$rd ./check $prop --tier ${TIER:-quick} --no-evidence ${EXTRA} 2>&1)
  rc=$?
  sigs=$(echo "$out" | grep "signature=" | sed 's/.*signature=//; s/ run_index.*//' | sort -u | head -4 | tr '\n' ';')
  echo "$d exit=$rc $(echo "$out" | tail -1 | sed 's/ wall.*//') :: $sigs"
  rm -rf $rd
  git -C $WT checkout -q -- .
done
