#!/bin/bash
# Evaluate the checks against the seeded changes: apply each patch to a scratch worktree of /repo (outside /repo and
# /verif), point the property's quick check at it through VERIF_REPO, undo.  usage: ./tools_eval_seeded.sh [dir ...]
# SEEDED_WT=<scratch worktree>  SEEDS="0 1 2" (one run of the quick check per VERIF_SEED; default: the current one)
WT=${SEEDED_WT:-/tmp/wt-verify}
[ -d "$WT" ] || git -C /repo worktree add --detach "$WT" HEAD >/dev/null 2>&1
cd /verif
dirs=${@:-seeded/*}
for d in $dirs; do
  prop=$(basename $d | cut -d- -f1)
  git -C $WT checkout -q -- . ; git -C $WT checkout -q --detach $(git -C /repo rev-parse HEAD) ; git -C $WT apply $(pwd)/$d/patch.diff 2>/dev/null || git -C $WT apply -3 $(pwd)/$d/patch.diff >/dev/null 2>&1 || { echo "$d APPLY-FAILED"; git -C $WT checkout -q -- . ; continue; }
  git -C $WT reset -q 2>/dev/null
  codes=""
  for sd in ${SEEDS:-${VERIF_SEED:-0}}; do
    rd=$(mktemp -d /tmp/irsim-seeded-XXXX)
    out=$(VERIF_SEED=$sd VERIF_REPO=$WT VERIF_REPLAY_DIR=$rd ./check $prop --tier ${TIER:-quick} --no-evidence ${EXTRA} 2>&1)
    rc=$?
    codes="$codes$rc"
    rm -rf $rd
  done
  sigs=$(echo "$out" | grep "signature=" | sed 's/.*signature=//; s/ run_index.*//' | sort -u | head -4 | tr '\n' ';')
  if [ -n "$SEEDS" ]; then echo "$d exits=$codes (seeds $SEEDS) :: $sigs"; else echo "$d exit=$rc $(echo "$out" | tail -1 | sed 's/ wall.*//') :: $sigs"; fi
  git -C $WT checkout -q -- .
done
