#!/venv/bin/python
"""
Record in seeded/*/meta.json and benign/*/meta.json what ./tools_eval_seeded.sh reported.
usage: SEEDS="0 1 2" ./tools_eval_seeded.sh seeded/* benign/* > out.txt ; ./tools_fill_meta.py out.txt
Lines understood:  "<dir> exits=111 (seeds 0 1 2) :: sig;sig"   and   "<dir> exit=1 <summary> :: sig;sig"
Which changes were missed when they arrived, and what was strengthened for them, is kept here (rounds 6-8).
"""
import json
import os
import re
import sys

HERE = os.path.dirname(os.path.abspath(__file__))

MISSED_FIRST = {
    "C19-r6-1": "databox world: exports that select nothing, asked to be an error: documented to raise, and the file of an earlier export must stay byte-identical",
    "C19-r6-3": "databox world: +-inf among the generated observations (written, read back, never filled by fallbacks)",
    "C20-r6-1": "models world: read-only simulate steps for RedVAR with deviation / residual switches, a deviation-mode simulation among the behaviour observables",
    "C20-r6-3": "models world: exact zeros among the drawn parameter values (more often for models that can be exported to the portable form)",
    "C09-r7-1": "dates world: iterators kept in flight across other steps; what they yield must be the span in one of the states it had meanwhile",
    "C10-r7-2": "series world: extrapolation over spans given relative to the series (irispie.end+1 >> ...)",
    "C19-r7-1": "databox world: overwrites that themselves leave cells missing (a missing scalar, a series covering part of the span), fallback and overwrite declared for one name",
    "C19-r7-3": "databox world: csv_writer_settings={'quoting': QUOTE_NONNUMERIC} among the export options",
    "C20-r7-2": "models world: hand-off to a second interpreter with another hash seed in a third of the quick runs (was one in sixteen)",
    "C20-r7-3": "models world: a fresh solution is often first read through a short anticipation horizon, so that wider readers resume its memo",
    "C09-r8-1": "dates world: the very same constructor call repeated later in the run (result must be a new span)",
    "C10-r8-2": "series world: whole-series reads (x.get_data(), x[...]) more frequent; arrays returned by reads are kept by the caller and written into later",
    "C10-r8-3": "series world: the caller shifts, in place, the Span a series handed out",
    "C19-r8-1": "SimFS keeps leaked handles real after a failed (not crashed) step; the caller sometimes keeps the exception of a failed export alive across the next export; a caller-supplied date formatter that fails mid-way",
    "C19-r8-2": "databox world: LINE SEPARATOR, NEXT LINE, vertical tab and form feed in header cells",
    "C19-r8-3": "harness: an export that returns normally must leave a file (was a KeyError of the harness, exit 2)",
    "C20-r8-1": "OS seam: flock/lockf/ftruncate/truncate/fstat/fdatasync on simulated descriptors (was flagged for the wrong reason: OSError out of the seam); nothing may follow the saved object in a completed file",
    "C20-r8-3": "models world: a context function used only on the steady side of an equation; check_steady(equation_switch='steady') among the behaviour observables",
    "C09-r9-1": "dates world: list(reversed(span)) is part of every span check (static case; the in-flight case stays Python's sequence protocol)",
    "C09-r9-2": "dates world: offsets given as NumPy integers, unsigned ones included",
    "C09-r9-3": "dates world: open-ended spans resolved against other live spans, open ones included (offsets compose; a later resolution against a closed context settles the result)",
    "C19-r9-1": "databox world: name_row_transform on import, together with description_row",
    "C19-r9-2": "databox world: fallbacks and overwrites declared in an order of their own, not in the order of the requested names",
    "C20-r9-2": "models world: a model with steady autovalues and no shocks (exportable to the portable form)",
    "C20-r9-3": "models world: growth scenarios - variants equal in everything but their steady change - followed by solve",
    "C20-r4-2": "models world: growing a model that already has several variants made a regular event (the change was caught on arrival, then slipped under VERIF_SEED=0 after generator changes)",
}


def parse(path):
    out = {}
    for line in open(path):
        line = line.strip()
        m = re.match(r"(seeded|benign)/(\S+) exits=(\d+) \(seeds ([^)]*)\)\s*::\s*(.*)$", line)
        if m:
            out[m.group(2)] = {"kind": m.group(1), "exits": [int(c) for c in m.group(3)], "seeds": m.group(4).split(), "sigs": [x for x in m.group(5).split(";") if x]}
            continue
        m = re.match(r"(seeded|benign)/(\S+) exit=(\d+) (.*?)\s*::\s*(.*)$", line)
        if m:
            out[m.group(2)] = {"kind": m.group(1), "exits": [int(m.group(3))], "seeds": ["0"], "sigs": [x for x in m.group(5).split(";") if x]}
    return out


def main():
    res = {}
    for p in sys.argv[1:]:
        res.update(parse(p))
    n = 0
    for name, r in sorted(res.items()):
        d = os.path.join(HERE, r["kind"], name)
        mp = os.path.join(d, "meta.json")
        if not os.path.exists(mp):
            continue
        meta = json.load(open(mp))
        prop = name.split("-")[0]
        if r["kind"] == "seeded":
            det = meta.get("detection", {})
            det.update({"check": f"./check {prop} --tier quick (VERIF_REPO=<scratch worktree of /repo HEAD with the patch applied>; ./tools_eval_seeded.sh)",
                        "caught_by_quick": all(c == 1 for c in r["exits"]), "exit_codes_by_seed": dict(zip(r["seeds"], r["exits"])),
                        "signatures": r["sigs"][:4] or det.get("signatures", [])})
            if name in MISSED_FIRST:
                det["missed_before_strengthening"] = True
                det["strengthening"] = MISSED_FIRST[name]
            else:
                det.setdefault("missed_before_strengthening", False)
            meta["detection"] = det
        else:
            meta["detection"] = {"check": f"./check {prop} --tier quick (VERIF_REPO=<scratch worktree with the patch applied>)",
                                 "exit_codes_by_seed": dict(zip(r["seeds"], r["exits"])), "false_alarm": any(c != 0 for c in r["exits"])}
        json.dump(meta, open(mp, "w"), indent=1)
        n += 1
    print(f"updated {n} meta.json files")
    bad = [k for k, r in res.items() if (r["kind"] == "seeded" and any(c != 1 for c in r["exits"])) or (r["kind"] == "benign" and any(c != 0 for c in r["exits"]))]
    print("needs attention:", bad)


if __name__ == "__main__":
    main()
