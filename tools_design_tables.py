#!/venv/bin/python
"""Print the rows of DESIGN 12.6 (which check catches which change) from the meta.json files."""
import json
import os

HERE = os.path.dirname(os.path.abspath(__file__))


def short(x, n):
    x = x.replace("|", "\\|").replace("\n", " ")
    return x[:n] + ("..." if len(x) > n else "")


def main():
    print("| change | what it does | caught as | checks |\n|--------|--------------|-----------|--------|")
    for d in sorted(os.listdir(os.path.join(HERE, "seeded")), key=lambda s: (s.split("-")[0], s.split("-")[1], s)):
        m = json.load(open(os.path.join(HERE, "seeded", d, "meta.json")))
        det = m.get("detection", {})
        sig = (det.get("signatures") or [""])[0]
        print(f"| `{d}` | {short(m['summary'], 150)} | `{sig}` | {'strengthened' if det.get('missed_before_strengthening') else 'as built'} |")
    print()
    print("| change | what it does | quick check |\n|--------|--------------|-------------|")
    for d in sorted(os.listdir(os.path.join(HERE, "benign")), key=lambda s: (s.split("-")[0], s.split("-")[1], s)):
        m = json.load(open(os.path.join(HERE, "benign", d, "meta.json")))
        det = m.get("detection", {})
        codes = det.get("exit_codes_by_seed") or {"0": det.get("quick_exit", "?")}
        print(f"| `{d}` | {short(m['summary'], 170)} | exit {'/'.join(str(c) for c in codes.values())} |")


if __name__ == "__main__":
    main()
