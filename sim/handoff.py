"""
Second party of the C20 scenarios: a fresh interpreter with its own PYTHONHASHSEED.

  hand-off:    python -m sim.handoff <file.dill> <template> <class> <horizon>
               loads a model that another interpreter serialised and prints its observables as JSON
  clean room:  python -m sim.handoff --log <file.json>
               builds a model from its template, replays a logical log of public mutators on it (nothing else has
               ever happened in this process) and prints observables + which mutators raised
"""

import json
import os
import sys


def main():
    import warnings
    warnings.filterwarnings("ignore")
    real_stdout = os.dup(1)
    devnull = os.open(os.devnull, os.O_WRONLY)
    os.dup2(devnull, 1)
    import irispie as ir
    from sim.worlds import model_zoo as zoo
    zoo._irispie()
    if sys.argv[1] == "--log":
        with open(sys.argv[2]) as f:
            doc = json.load(f)
        ad = zoo.ADAPTERS[doc["cls"]]
        m = ad.build(doc["tname"])
        raised = []
        for op in doc["log"]:
            try:
                m = ad.mutate(m, op)
                raised.append(None)
            except Exception as e:
                raised.append(type(e).__name__)
        out = {"cheap": ad.cheap(m), "deep": ad.deep(m, doc["tname"], doc["horizon"]), "raised": raised}
    else:
        path, tname, cls, horizon = sys.argv[1], sys.argv[2], sys.argv[3], int(sys.argv[4])
        m = ir.load(path)
        ad = zoo.ADAPTERS[cls]
        out = {"cheap": ad.cheap(m), "deep": ad.deep(m, tname, horizon)}
    os.dup2(real_stdout, 1)
    sys.stdout = os.fdopen(1, "w", closefd=False)
    print(json.dumps(out))


if __name__ == "__main__":
    main()
