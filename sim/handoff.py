"""
Second party of the C20 hand-off scenario: a fresh interpreter (own PYTHONHASHSEED) loads a model that
another interpreter serialised, computes its observables through the public API and prints them as JSON.

usage: python -m sim.handoff <file.dill> <template> <class> <horizon>
"""

import json
import os
import sys


def main():
    path, tname, cls, horizon = sys.argv[1], sys.argv[2], sys.argv[3], int(sys.argv[4])
    import warnings
    warnings.filterwarnings("ignore")
    real_stdout = os.dup(1)
    devnull = os.open(os.devnull, os.O_WRONLY)
    os.dup2(devnull, 1)
    import irispie as ir
    from sim.worlds import model_zoo as zoo
    zoo._irispie()
    m = ir.load(path)
    ad = zoo.ADAPTERS[cls]
    out = {"cheap": ad.cheap(m), "deep": ad.deep(m, tname, horizon)}
    os.dup2(real_stdout, 1)
    sys.stdout = os.fdopen(1, "w", closefd=False)
    print(json.dumps(out))


if __name__ == "__main__":
    main()
