"""
Simulator core: seed derivation, PRNG streams, violations, world base class, run loop, replay.

One integer decides everything: a run is a pure function of (run seed, tier, code under test).
Logging / fingerprinting / checking never draw from a stream and never read a clock.
"""

from __future__ import annotations

import collections
import hashlib
import json
import math
import os
import random


# --------------------------------------------------------------------------------------------------
# seeds and streams

def h64(*parts) -> int:
    m = hashlib.blake2b(digest_size=8)
    for p in parts:
        m.update(str(p).encode())
        m.update(b"\x1f")
    return int.from_bytes(m.digest(), "big")


def run_seed(verif_seed: int, prop: str, index: int) -> int:
    return h64("run", verif_seed, prop, index)


class Streams:
    """Independent named sub-streams of one run seed."""

    def __init__(self, rseed: int):
        self.rseed = rseed
        self._streams = {}

    def get(self, name: str) -> random.Random:
        s = self._streams.get(name)
        if s is None:
            s = self._streams[name] = random.Random(h64(self.rseed, name))
        return s


# --------------------------------------------------------------------------------------------------
# canonical JSON / digests (never repr() of real objects)

def canon(obj) -> str:
    return json.dumps(obj, sort_keys=True, separators=(",", ":"), allow_nan=True, default=_canon_default)


def _canon_default(o):
    try:
        import numpy as np
        if isinstance(o, np.ndarray):
            return o.tolist()
        if isinstance(o, (np.floating,)):
            return float(o)
        if isinstance(o, (np.integer,)):
            return int(o)
        if isinstance(o, (np.bool_,)):
            return bool(o)
    except ImportError:
        pass
    if isinstance(o, (set, frozenset)):
        return sorted(o)
    if isinstance(o, tuple):
        return list(o)
    raise TypeError(f"not canonicalisable: {type(o)}")


def sha1(s: str | bytes) -> str:
    if isinstance(s, str):
        s = s.encode()
    return hashlib.sha1(s).hexdigest()


def fhex(x: float) -> str:
    """IEEE-exact, NaN-canonical rendering of a float."""
    x = float(x)
    if math.isnan(x):
        return "nan"
    return x.hex()


# --------------------------------------------------------------------------------------------------
# violations

class Violation(Exception):
    """A property violation found by an oracle."""

    def __init__(self, klass: str, op: str, predicate: str = "", exc: str = "", message: str = "",
                 handles: tuple = ()):
        super().__init__(f"{klass} op={op} predicate={predicate} exc={exc}: {message}")
        self.klass = klass
        self.op = op
        self.predicate = predicate
        self.exc = exc
        self.message = message
        self.handles = tuple(handles)
        self.seq = None

    @property
    def signature(self) -> tuple:
        return (self.klass, self.op, self.predicate, self.exc)

    def to_json(self) -> dict:
        return {"class": self.klass, "op": self.op, "predicate": self.predicate, "exception": self.exc,
                "message": self.message, "seq": self.seq}


def strip_traceback(e):
    """
    Drop the traceback (and those of chained exceptions) from a caught exception that the harness keeps.

    Not cosmetic: pickle's framer hands the file a memoryview of an io.BytesIO; when an injected I/O
    error is raised inside that write, the traceback keeps the memoryview alive in a reference cycle and
    CPython 3.12 crashes (segmentation fault in the garbage collector, "BufferError: Existing exports of
    data") when the cycle is broken.  Without the traceback the frames die by reference counting, in order.
    """
    seen = set()
    while e is not None and id(e) not in seen:
        seen.add(id(e))
        e.__traceback__ = None
        nxt = e.__cause__ or e.__context__
        e = nxt
    return None


class HarnessError(Exception):
    """The harness itself is wrong (model bug, impossible state). Never reported as a violation."""


# irispie's own rejections: permitted outcomes of an operation
def rejection_types():
    from irispie import wrongdoings as w
    out = [w.IrisPieError, w.IrisPieCritical]
    return tuple(out)


# --------------------------------------------------------------------------------------------------
# known findings

class KnownFindings:
    """Read-only view of /verif/KNOWN_FINDINGS.jsonl (never written at run time)."""

    def __init__(self, path: str | None, prop: str):
        self.entries = []
        self.prop = prop
        import os as _os
        if _os.environ.get("VERIF_IGNORE_KNOWN") == "1":
            path = None     # used to re-execute the stored replay of a known finding and see whether it still reproduces
        if path:
            try:
                with open(path, "r") as f:
                    for line in f:
                        line = line.strip()
                        if not line.startswith("{"):
                            continue    # comments and `fixed: ...` records (a fixed entry suppresses nothing)
                        e = json.loads(line)
                        if e.get("property") == prop and e.get("status") == "known":
                            self.entries.append(e)
            except FileNotFoundError:
                pass
        self._index = {
            (e["class"], e["op"], e.get("predicate", ""), e.get("exception", "")): e for e in self.entries
        }

    def match(self, v: Violation):
        return self._index.get(v.signature)


# --------------------------------------------------------------------------------------------------
# world base class

class World:
    """
    A world holds live real objects and their reference-model twins.

    Subclasses implement: swarm(), gen_step(), _apply(), can_apply(), finish(), fingerprint(),
    abstract(), step_handles(), retire().
    """

    PROPERTY = "C00"
    NAME = "world"

    def __init__(self, cfg: dict, known: KnownFindings | None = None):
        self.cfg = cfg
        self.known = known
        self.stats = collections.Counter()       # op kinds, outcomes
        self.probes = collections.Counter()      # rare-condition counters
        self.faults_fired = collections.Counter()
        self.known_hits = collections.Counter()  # signature -> count
        self.known_examples = {}
        self.mutating_steps = 0
        self.max_live = 0

    NET_ALL = False
    STEP_CAP = 60.0

    # -- to implement -------------------------------------------------------------------------
    @classmethod
    def swarm(cls, rng: random.Random, tier: str) -> dict:
        raise NotImplementedError

    def gen_step(self, streams: Streams) -> dict | None:
        raise NotImplementedError

    def _apply(self, step: dict) -> str:
        raise NotImplementedError

    def can_apply(self, step: dict) -> bool:
        return True

    def unjudged(self, step: dict) -> bool:
        """True when the world only counts the outcome of this step (it then does not judge its duration either)."""
        return False

    def finish(self) -> None:
        pass

    def fingerprint(self) -> str:
        return ""

    def abstract(self):
        return ()

    def retire(self, handles) -> None:
        pass

    def step_handles(self, step: dict) -> tuple:
        return ()

    def close(self) -> None:
        pass

    # -- driver -------------------------------------------------------------------------------
    def apply(self, step: dict) -> str:
        """Apply one concrete step; known findings are recorded and their objects retired."""
        try:
            try:
                return self._apply(step)
            except (Violation, HarnessError, MemoryError):
                raise
            except Exception as e:
                # an exception that escaped every guard of the world: when it came out of irispie code (or the world
                # says that all it does at this point is call the library, NET_ALL) it is a crash of an operation
                # the model had accepted, not a fault of the harness
                if not (self.NET_ALL or _through_library(e)):
                    raise
                strip_traceback(e)
                raise Violation("crash", step.get("op", "?"), "unguarded", type(e).__name__,
                                f"{type(e).__name__}: {str(e)[:160]}") from None
        except Violation as v:
            v.seq = step.get("seq")
            e = self.known.match(v) if self.known is not None else None
            if e is None:
                raise
            self.known_hits[v.signature] += 1
            self.known_examples.setdefault(v.signature, {"what": e.get("what", ""), "message": v.message})
            self.retire(tuple(self.step_handles(step)) + tuple(v.handles))
            return "known:" + v.klass


def _through_library(e: BaseException) -> bool:
    tb = e.__traceback__
    marker = os.sep + "irispie" + os.sep
    while tb is not None:
        if marker in tb.tb_frame.f_code.co_filename:
            return True
        tb = tb.tb_next
    return False


class RunResult:
    def __init__(self):
        self.index = None
        self.rseed = None
        self.cfg = None
        self.trace = []
        self.digest = ""
        self.violation = None
        self.nsteps = 0
        self.stats = None
        self.probes = None
        self.faults_fired = None
        self.known_hits = None
        self.known_examples = None
        self.signature = ""
        self.abstract_states = set()
        self.interleaving = ""
        self.nontrivial = False
        self.outcomes = []


def _event(dig, seq, step, outcome, fp):
    rec = (seq, step.get("actor", ""), step["op"], sha1(canon(step.get("args", {}))), outcome, fp)
    dig.update(canon(rec).encode())


def execute(world_cls, rseed: int, tier: str, known: KnownFindings | None, cfg: dict | None = None,
            trace: list | None = None) -> RunResult:
    """
    Run one simulation.  trace is None: generate from the seed.  trace given: replay it (no PRNG).
    """
    res = RunResult()
    res.rseed = rseed
    streams = Streams(rseed)
    if cfg is None:
        cfg = world_cls.swarm(streams.get("swarm"), tier)
    res.cfg = cfg
    world = world_cls(cfg, known)
    dig = hashlib.sha256()
    dig.update(canon(cfg).encode())
    sig = hashlib.sha1()
    actors = []
    try:
        try:
            if trace is None:
                nsteps = int(cfg["steps"])
                seq = 0
                for _ in range(nsteps):
                    step = world.gen_step(streams)
                    if step is None:
                        break
                    step["seq"] = seq
                    res.trace.append(step)
                    outcome = _apply_bounded(world, step)
                    _after_step(world, res, dig, sig, actors, seq, step, outcome)
                    seq += 1
            else:
                for step in trace:
                    if not world.can_apply(step):
                        continue
                    res.trace.append(step)
                    outcome = _apply_bounded(world, step)
                    _after_step(world, res, dig, sig, actors, step.get("seq", 0), step, outcome)
            try:
                world.finish()
            except (Violation, HarnessError):
                raise
            except Exception as e:
                # the end-of-run checks only look at what completed operations left behind: an exception out of library
                # code there (a MemoryError over an absurd span read back from a completed file included) is a verdict
                if not (world.NET_ALL or _through_library(e)):
                    raise
                strip_traceback(e)
                raise Violation("crash", "finish", "unguarded", type(e).__name__, f"{type(e).__name__}: {str(e)[:160]}") from None
        except Violation as v:
            res.violation = v
    finally:
        world.close()
    res.nsteps = len(res.trace)
    res.digest = dig.hexdigest()
    res.signature = sig.hexdigest()
    res.stats = world.stats
    res.probes = world.probes
    res.faults_fired = world.faults_fired
    res.known_hits = world.known_hits
    res.known_examples = world.known_examples
    res.nontrivial = world.mutating_steps >= 3 and world.max_live >= 2
    res.interleaving = sha1(_rle(actors))
    return res


def _rle(seq):
    out = []
    prev = None
    n = 0
    for a in seq:
        if a == prev:
            n += 1
        else:
            if prev is not None:
                out.append(f"{prev}*{n}")
            prev, n = a, 1
    if prev is not None:
        out.append(f"{prev}*{n}")
    return ",".join(out)


def _after_step(world, res, dig, sig, actors, seq, step, outcome):
    fp = world.fingerprint()
    _event(dig, seq, step, outcome, fp)
    ab = world.abstract()
    res.abstract_states.add(h64(canon(ab)))
    sig.update(canon((step["op"], step.get("kind", ""), outcome.split(":")[0], )).encode())
    actors.append(step.get("actor", ""))
    res.outcomes.append(outcome)


# --------------------------------------------------------------------------------------------------
# delta debugging over the concrete trace

class _ReplayTimeout(BaseException):
    pass


class _alarm:
    """Raise `exc()` in the main thread after `seconds` of wall time; nests (an outer alarm keeps its deadline)."""

    def __init__(self, seconds, exc):
        self.seconds = seconds
        self.exc = exc
        self.active = False

    def _handler(self, signum, frame):
        raise self.exc()

    def __enter__(self):
        import signal
        import threading
        import time
        if self.seconds and hasattr(signal, "setitimer") and threading.current_thread() is threading.main_thread():
            try:
                self.old_handler = signal.signal(signal.SIGALRM, self._handler)
                self.old_left = signal.setitimer(signal.ITIMER_REAL, self.seconds)[0]
                self.t0 = time.monotonic()
                self.active = True
            except ValueError:
                self.active = False
        return self

    def __exit__(self, *exc):
        import signal
        import time
        if self.active:
            signal.setitimer(signal.ITIMER_REAL, 0)
            signal.signal(signal.SIGALRM, self.old_handler)
            if self.old_left:
                signal.setitimer(signal.ITIMER_REAL, max(self.old_left - (time.monotonic() - self.t0), 0.01))
        return False


def _wall_limit(seconds):
    """Bound one candidate replay of the minimiser by wall time (harness only)."""
    return _alarm(seconds, _ReplayTimeout)


class _StepTimeout(BaseException):
    pass


# an operation the model accepted returns within this many seconds of wall time (bounded progress); far above what any
# step needs (milliseconds; seconds for a clean-room replay), so only a real hang reaches it
STEP_CAP_OVERRIDE = None


def _step_cap(world):
    if STEP_CAP_OVERRIDE is not None:
        return STEP_CAP_OVERRIDE
    try:
        return float(os.environ.get("VERIF_STEP_CAP_S", "") or world.STEP_CAP)
    except ValueError:
        return world.STEP_CAP


def _apply_bounded(world, step):
    cap = _step_cap(world)
    if world.unjudged(step):
        # the outcome of this step is counted, not judged (reading a file a crash or a failed write left torn: garbage
        # parsed into periods millennia apart makes the reader allocate gigabytes, slowly) - so is the time it takes;
        # only a generous multiple of the cap still applies, as the backstop against a real hang
        cap = cap * 20
    try:
        with _alarm(cap, _StepTimeout):
            return world.apply(step)
    except _StepTimeout:
        v = Violation("hang", step.get("op", "?"), "", "", f"the operation did not return within {cap:g} s of wall time")
        v.seq = step.get("seq")
        raise v from None


def minimise(world_cls, cfg: dict, trace: list, target: Violation, known, budget_runs: int = 400,
             simplifiers=None, clock=None, budget_s: float = 60.0, per_test_s: float = 8.0):
    """ddmin on the step list, then per-step argument simplification.  Returns (trace, violation, runs)."""
    global STEP_CAP_OVERRIDE
    if target.klass == "hang" and STEP_CAP_OVERRIDE is None:
        # candidates of a hang are judged with a short cap, or every one of them would cost the full cap
        STEP_CAP_OVERRIDE = 3.0
        try:
            return minimise(world_cls, cfg, trace, target, known, budget_runs=60, simplifiers=simplifiers, clock=clock,
                            budget_s=max(budget_s, 120.0), per_test_s=30.0)
        finally:
            STEP_CAP_OVERRIDE = None
    runs = 0
    t0 = clock() if clock else None

    def over():
        if runs >= budget_runs:
            return True
        if clock and clock() - t0 > budget_s:
            return True
        return False

    def test(cand):
        nonlocal runs
        runs += 1
        try:
            with _wall_limit(per_test_s):
                r = execute(world_cls, 0, "replay", known, cfg=cfg, trace=cand)
        except BaseException as e:
            if isinstance(e, KeyboardInterrupt):
                raise
            # a sub-trace can put a step into a state its generator never saw (shapes no longer match, a
            # garbage file parsed into periods millennia apart): such a candidate is simply not a valid reduction
            return None
        if r.violation is not None and r.violation.signature == target.signature:
            return r
        return None

    # truncate after the violating step
    cur = list(trace)
    if target.seq is not None:
        cut = [k for k, s in enumerate(cur) if s.get("seq") == target.seq]
        if cut:
            cand = cur[: cut[-1] + 1]
            r = test(cand)
            if r is not None:
                cur = cand
    best = test(cur)
    if best is None:
        return cur, None, runs
    n = 2
    while len(cur) >= 2 and not over():
        chunk = max(1, len(cur) // n)
        reduced = False
        i = 0
        while i < len(cur) and not over():
            cand = cur[:i] + cur[i + chunk:]
            if cand:
                r = test(cand)
                if r is not None:
                    cur = cand
                    best = r
                    reduced = True
                    n = max(n - 1, 2)
                    continue
            i += chunk
        if not reduced:
            if chunk == 1:
                break
            n = min(len(cur), n * 2)
    # argument simplification
    if simplifiers:
        changed = True
        while changed and not over():
            changed = False
            for k in range(len(cur)):
                for simpler in simplifiers(cur[k]):
                    if over():
                        break
                    cand = cur[:k] + [simpler] + cur[k + 1:]
                    r = test(cand)
                    if r is not None:
                        cur = cand
                        best = r
                        changed = True
                        break
    return cur, best.violation, runs
