"""
SimFS: an in-memory file system under the *real* CPython io stack.

`open()` returns io.TextIOWrapper / io.BufferedWriter|Reader|Random over a SimRaw(io.RawIOBase), so
buffering, encoding, utf-8-sig, newline translation and close-time flushes are the real ones and
injected faults surface where an operating system would deliver them (inside write(), flush() or the
close() performed by `with`).

Faults are decided before the step runs (a concrete plan, part of the trace); nothing here draws
random numbers or reads a clock.

plan = {
  "buffer": 64,              # BufferedWriter/Reader buffer size
  "short_write": 5 | None,   # every raw write accepts at most this many bytes (legal for raw I/O)
  "short_read": 7 | None,    # every raw read returns at most this many bytes (legal)
  "faults": [ {"kind": "write_enospc", "at": 3}, ... ]   # at = index of the raw call of that class in this step
}
kinds: open_enoent open_eacces open_emfile open_enospc | write_enospc write_eio | read_eio | close_eio | crash
"""

from __future__ import annotations

import errno
import io


class SimCrash(BaseException):
    """Process crash of the acting actor: unwinds through irispie (not an Exception on purpose)."""


_OPEN_ERRNO = {
    "open_enoent": errno.ENOENT, "open_eacces": errno.EACCES, "open_emfile": errno.EMFILE, "open_enospc": errno.ENOSPC,
}


class SimFS:
    def __init__(self):
        self.files = {}          # path -> bytearray
        self.fired = []          # faults that actually fired in the current step
        self.counts = {"open": 0, "write": 0, "read": 0, "close": 0}
        self.totals = {"open": 0, "write": 0, "read": 0, "close": 0, "bytes_written": 0, "bytes_read": 0}
        self.plan = {}
        self.dead = False        # after a crash: every raw write is discarded
        self.touched = set()     # paths written/truncated in the current step
        self.opened = []         # (path, mode) opened in the current step
        self.handles = []

    # -- step protocol ----------------------------------------------------------------------------
    def begin_step(self, plan=None):
        self.plan = plan or {}
        self.fired = []
        self.counts = {"open": 0, "write": 0, "read": 0, "close": 0}
        self.dead = False
        self.touched = set()
        self.opened = []

    def end_step(self):
        # a crash leaves Python-level buffers behind; make sure nothing of them reaches the disk later
        for h in self.handles:
            h.dead = True
        self.handles = []
        self.dead = False
        self.plan = {}
        return list(self.fired)

    def _fault(self, klass, kinds):
        k = self.counts[klass]
        self.counts[klass] += 1
        self.totals[klass] += 1
        for f in self.plan.get("faults", ()):
            if f["kind"] in kinds and f["at"] == k:
                self.fired.append(f["kind"])
                return f
        return None

    # -- the seam ---------------------------------------------------------------------------------
    def open(self, file, mode="r", buffering=-1, encoding=None, errors=None, newline=None, closefd=True, opener=None):
        path = str(file)
        f = self._fault("open", tuple(_OPEN_ERRNO))
        self.opened.append((path, mode))
        if f is not None:
            raise OSError(_OPEN_ERRNO[f["kind"]], "sim: " + f["kind"], path)
        binary = "b" in mode
        raw = SimRaw(self, path, mode)
        self.handles.append(raw)
        bufsize = int(self.plan.get("buffer") or 8192)
        if buffering == 0 and binary:
            return raw
        if raw.readable() and raw.writable():
            buf = io.BufferedRandom(raw, bufsize)
        elif raw.writable():
            buf = io.BufferedWriter(raw, bufsize)
        else:
            buf = io.BufferedReader(raw, bufsize)
        if binary:
            return buf
        return io.TextIOWrapper(buf, encoding=encoding or "utf-8", errors=errors, newline=newline)

    # convenience for the harness (never through the fault path)
    def read_bytes(self, path):
        return bytes(self.files[path])

    def exists(self, path):
        return path in self.files


class SimRaw(io.RawIOBase):
    def __init__(self, fs: SimFS, path: str, mode: str):
        super().__init__()
        self.fs = fs
        self.path = path
        self.mode = mode
        self.pos = 0
        self.dead = False
        m = mode.replace("b", "").replace("t", "")
        self._readable = m.startswith("r") or "+" in m
        self._writable = m[0] in "wax" or "+" in m
        if m[0] == "w":
            fs.files[path] = bytearray()
            fs.touched.add(path)
        elif m[0] == "x":
            if path in fs.files:
                raise FileExistsError(errno.EEXIST, "sim: file exists", path)
            fs.files[path] = bytearray()
            fs.touched.add(path)
        elif m[0] == "a":
            fs.files.setdefault(path, bytearray())
            self.pos = len(fs.files[path])
        else:
            if path not in fs.files:
                raise FileNotFoundError(errno.ENOENT, "sim: no such file or directory", path)
        self.name = path

    def readable(self):
        return self._readable

    def writable(self):
        return self._writable

    def seekable(self):
        return True

    def seek(self, off, whence=0):
        n = len(self.fs.files.get(self.path, b""))
        self.pos = {0: off, 1: self.pos + off, 2: n + off}[whence]
        return self.pos

    def tell(self):
        return self.pos

    def readinto(self, b):
        fs = self.fs
        f = fs._fault("read", ("read_eio",))
        if f is not None:
            raise OSError(errno.EIO, "sim: read_eio", self.path)
        want = len(b)
        lim = fs.plan.get("short_read")
        if lim:
            if want > lim:
                fs.fired.append("short_read") if "short_read" not in fs.fired else None
            want = min(want, int(lim))
        data = fs.files[self.path][self.pos:self.pos + want]
        n = len(data)
        b[:n] = data
        self.pos += n
        fs.totals["bytes_read"] += n
        return n

    def write(self, b):
        fs = self.fs
        if self.dead or fs.dead:
            return len(b)          # crashed process: buffered bytes never reach the disk
        data = bytes(b)
        f = fs._fault("write", ("write_enospc", "write_eio", "crash"))
        if f is not None:
            keep = min(int(f.get("keep", 0)), len(data))
            self._store(data[:keep])
            if f["kind"] == "crash":
                fs.dead = True
                for h in fs.handles:
                    h.dead = True
                raise SimCrash(f"sim: crash during raw write #{f['at']} to {self.path}")
            code = errno.ENOSPC if f["kind"] == "write_enospc" else errno.EIO
            raise OSError(code, "sim: " + f["kind"], self.path)
        lim = fs.plan.get("short_write")
        if lim and len(data) > int(lim):
            data = data[: int(lim)]
            if "short_write" not in fs.fired:
                fs.fired.append("short_write")
        self._store(data)
        return len(data)

    def _store(self, data):
        if not data:
            return
        fs = self.fs
        buf = fs.files[self.path]
        if "a" in self.mode:
            self.pos = len(buf)
        if self.pos > len(buf):
            buf.extend(b"\x00" * (self.pos - len(buf)))
        buf[self.pos:self.pos + len(data)] = data
        self.pos += len(data)
        fs.touched.add(self.path)
        fs.totals["bytes_written"] += len(data)

    def truncate(self, size=None):
        size = self.pos if size is None else size
        if not (self.dead or self.fs.dead):
            del self.fs.files[self.path][size:]
            self.fs.touched.add(self.path)
        return size

    def close(self):
        if self.closed:
            return
        super().close()
        fs = self.fs
        if self.dead or fs.dead:
            return
        f = fs._fault("close", ("close_eio",))
        if f is not None:
            raise OSError(errno.EIO, "sim: close_eio", self.path)


class NumpyProxy:
    """Stands in for the `numpy` module alias inside irispie.databoxes._imports: genfromtxt opens by name through SimFS."""

    def __init__(self, real, fs_getter):
        self._real = real
        self._fs = fs_getter

    def __getattr__(self, name):
        return getattr(self._real, name)

    def genfromtxt(self, fname, *args, **kwargs):
        if isinstance(fname, (str, bytes)) or hasattr(fname, "__fspath__"):
            with self._fs().open(fname, "rt") as fid:
                return self._real.genfromtxt(fid, *args, **kwargs)
        return self._real.genfromtxt(fname, *args, **kwargs)


_CURRENT = {"fs": None}


def current():
    return _CURRENT["fs"]


def _sim_open(*args, **kwargs):
    fs = _CURRENT["fs"]
    if fs is None:
        raise RuntimeError("sim: file opened outside a simulated world")
    return fs.open(*args, **kwargs)


_installed = False


def install(fs: SimFS):
    """Bind the file seam of every irispie module that opens files by bare name (module globals shadow builtins)."""
    global _installed
    _CURRENT["fs"] = fs
    if _installed:
        return
    import numpy as np
    import irispie.databoxes._exports as ex
    import irispie.databoxes._imports as im
    import irispie.databoxes.main as dm
    import irispie.file_io as fio
    import irispie.simultaneous._io as sio
    for mod in (ex, im, dm, fio, sio):
        mod.open = _sim_open
    im._np = NumpyProxy(np, current)
    _installed = True
