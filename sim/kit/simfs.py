"""
SimFS: an in-memory file system under the *real* CPython io stack.

`open()` returns io.TextIOWrapper / io.BufferedWriter|Reader|Random over a SimRaw(io.RawIOBase), so
buffering, encoding, utf-8-sig, newline translation and close-time flushes are the real ones and
injected faults surface where an operating system would deliver them (inside write(), flush() or the
close() performed by `with`).

Faults are decided before the step runs (a concrete plan, part of the trace); nothing here draws
random numbers or reads a clock.

plan = {
  "buffer": 64,              # BufferedWriter/Reader buffer size
  "short_write": 5 | None,   # every raw write accepts at most this many bytes (legal for raw I/O)
  "short_read": 7 | None,    # every raw read returns at most this many bytes (legal)
  "faults": [ {"kind": "write_enospc", "at": 3}, ... ]   # at = index of the raw call of that class in this step
}
kinds: open_enoent open_eacces open_emfile open_enospc | write_enospc write_eio | read_eio | close_eio | rename_eio | crash
"""

from __future__ import annotations

import builtins
import errno
import io
import os
import stat as _stat

SIM_PREFIX = "/sim/"
_FD_BASE = 1_000_000


class SimCrash(BaseException):
    """Process crash of the acting actor: unwinds through irispie (not an Exception on purpose)."""


_OPEN_ERRNO = {
    "open_enoent": errno.ENOENT, "open_eacces": errno.EACCES, "open_emfile": errno.EMFILE, "open_enospc": errno.ENOSPC,
}


class SimFS:
    def __init__(self):
        self.files = {}          # path -> bytearray
        self.fired = []          # faults that actually fired in the current step
        self.counts = {"open": 0, "write": 0, "read": 0, "close": 0, "rename": 0}
        self.totals = {"open": 0, "write": 0, "read": 0, "close": 0, "rename": 0, "bytes_written": 0, "bytes_read": 0, "eintr": 0}
        self.plan = {}
        self.dead = False        # after a crash: every raw write is discarded
        self.touched = set()     # paths written/truncated in the current step
        self.opened = []         # (path, mode) opened in the current step
        self.handles = []
        self.fds = {}            # fake fd -> {"path", "flags"}  (os.open on a simulated path)
        self._next_fd = _FD_BASE
        self.os_calls = {}       # name -> count (os-level calls that reached the simulated disk)

    # -- step protocol ----------------------------------------------------------------------------
    def begin_step(self, plan=None):
        self.plan = plan or {}
        self.fired = []
        self.counts = {"open": 0, "write": 0, "read": 0, "close": 0, "rename": 0}
        self.dead = False
        self.touched = set()
        self.opened = []
        self.eintr_seen = 0

    def end_step(self, crashed=True):
        # a crash leaves Python-level buffers behind; make sure nothing of them reaches the disk later.  A step that
        # merely failed (crashed=False) is another matter: the process lives on, and a handle the code under test left
        # open flushes whatever it still buffers whenever it is finally closed or collected - that is kept real
        if crashed or self.dead:
            for h in self.handles:
                h.dead = True
        self.handles = []
        self.dead = False
        self.plan = {}
        return list(self.fired)

    def _fault(self, klass, kinds):
        k = self.counts[klass]
        self.counts[klass] += 1
        self.totals[klass] += 1
        for f in self.plan.get("faults", ()):
            if f["kind"] in kinds and f["at"] == k:
                self.fired.append(f["kind"])
                return f
        return None

    # -- the seam ---------------------------------------------------------------------------------
    def _count(self, name):
        self.os_calls[name] = self.os_calls.get(name, 0) + 1

    def os_open(self, path, flags, mode=0o777):
        """os.open on a simulated path: POSIX flag semantics, returns a fake descriptor."""
        path = os.fspath(path)
        self._count("os.open")
        f = self._fault("open", tuple(_OPEN_ERRNO))
        self.opened.append((path, f"flags={flags}"))
        if f is not None:
            raise OSError(_OPEN_ERRNO[f["kind"]], "sim: " + f["kind"], path)
        exists = path in self.files
        if flags & os.O_CREAT:
            if exists and flags & os.O_EXCL:
                raise FileExistsError(errno.EEXIST, "sim: file exists", path)
            if not exists:
                self.files[path] = bytearray()
                self.touched.add(path)
        elif not exists:
            raise FileNotFoundError(errno.ENOENT, "sim: no such file or directory", path)
        if flags & os.O_TRUNC and (flags & (os.O_WRONLY | os.O_RDWR)):
            self.files[path] = bytearray()
            self.touched.add(path)
        fd = self._next_fd
        self._next_fd += 1
        self.fds[fd] = {"path": path, "flags": flags}
        return fd

    def os_close(self, fd):
        self.fds.pop(fd, None)

    def rename(self, src, dst):
        src, dst = os.fspath(src), os.fspath(dst)
        self._count("os.replace")
        if src not in self.files:
            raise FileNotFoundError(errno.ENOENT, "sim: no such file or directory", src)
        if self.dead:
            return
        f = self._fault("rename", ("rename_eio",))
        if f is not None:
            raise OSError(errno.EIO, "sim: rename_eio", dst)
        self.files[dst] = self.files.pop(src)
        self.touched.add(dst)
        self.touched.add(src)

    def remove(self, path):
        path = os.fspath(path)
        self._count("os.remove")
        if path not in self.files:
            raise FileNotFoundError(errno.ENOENT, "sim: no such file or directory", path)
        if self.dead:
            return
        del self.files[path]
        self.touched.add(path)

    def stat(self, path):
        path = os.fspath(path)
        if path.rstrip("/") + "/" == SIM_PREFIX or path + "/" == SIM_PREFIX:
            return os.stat_result((_stat.S_IFDIR | 0o755, 0, 0, 1, 0, 0, 0, 0, 0, 0))
        if path not in self.files:
            raise FileNotFoundError(errno.ENOENT, "sim: no such file or directory", path)
        return os.stat_result((_stat.S_IFREG | 0o644, 0, 0, 1, 0, 0, len(self.files[path]), 0, 0, 0))

    @staticmethod
    def _flags_of_mode(mode):
        m = mode.replace("b", "").replace("t", "")
        plus = "+" in m
        base = {"r": 0, "w": os.O_CREAT | os.O_TRUNC, "a": os.O_CREAT | os.O_APPEND, "x": os.O_CREAT | os.O_EXCL}[m[0]]
        if plus:
            acc = os.O_RDWR
        elif m[0] == "r":
            acc = os.O_RDONLY
        else:
            acc = os.O_WRONLY
        return base | acc | getattr(os, "O_CLOEXEC", 0)

    def open(self, file, mode="r", buffering=-1, encoding=None, errors=None, newline=None, closefd=True, opener=None):
        binary = "b" in mode
        if isinstance(file, int):
            # an already opened (fake) descriptor
            ent = self.fds.get(file)
            if ent is None:
                raise OSError(errno.EBADF, "sim: bad file descriptor")
            raw = SimRaw(self, ent["path"], mode, fd=file, flags=ent["flags"])
            raw.closefd = bool(closefd)      # closefd=False: the descriptor outlives the file object (os.fdopen(fd, closefd=False))
            path = ent["path"]
        elif opener is not None:
            path = os.fspath(file)
            fd = opener(path, self._flags_of_mode(mode))
            ent = self.fds.get(fd)
            if ent is None:
                raise OSError(errno.EBADF, "sim: opener returned a descriptor that is not on the simulated disk")
            self._count("open(opener=)")
            raw = SimRaw(self, ent["path"], mode, fd=fd, flags=ent["flags"])
        else:
            path = os.fspath(file)
            f = self._fault("open", tuple(_OPEN_ERRNO))
            self.opened.append((path, mode))
            if f is not None:
                raise OSError(_OPEN_ERRNO[f["kind"]], "sim: " + f["kind"], path)
            raw = SimRaw(self, path, mode)
        self.handles.append(raw)
        bufsize = int(self.plan.get("buffer") or 8192)
        if buffering == 0 and binary:
            return raw
        if raw.readable() and raw.writable():
            buf = io.BufferedRandom(raw, bufsize)
        elif raw.writable():
            buf = io.BufferedWriter(raw, bufsize)
        else:
            buf = io.BufferedReader(raw, bufsize)
        if binary:
            return buf
        return io.TextIOWrapper(buf, encoding=encoding or "utf-8", errors=errors, newline=newline)

    # convenience for the harness (never through the fault path)
    def read_bytes(self, path):
        return bytes(self.files[path])

    def exists(self, path):
        return path in self.files


class SimRaw(io.RawIOBase):
    def __init__(self, fs: SimFS, path: str, mode: str, fd=None, flags=None):
        super().__init__()
        self.fs = fs
        self.path = path
        self.mode = mode
        self.pos = 0
        self.dead = False
        self.fd = fd
        self.name = path
        m = mode.replace("b", "").replace("t", "")
        self._readable = m.startswith("r") or "+" in m
        self._writable = m[0] in "wax" or "+" in m
        self._append = m[0] == "a"
        if fd is not None:
            # the descriptor was opened by os.open: creation / truncation / exclusivity happened there, by ITS flags
            acc = flags & (os.O_WRONLY | os.O_RDWR)
            self._readable = self._readable and acc in (0, os.O_RDWR)
            self._writable = self._writable and acc in (os.O_WRONLY, os.O_RDWR)
            self._append = bool(flags & os.O_APPEND)
            if self._append:
                self.pos = len(fs.files.get(path, b""))
            return
        if m[0] == "w":
            fs.files[path] = bytearray()
            fs.touched.add(path)
        elif m[0] == "x":
            if path in fs.files:
                raise FileExistsError(errno.EEXIST, "sim: file exists", path)
            fs.files[path] = bytearray()
            fs.touched.add(path)
        elif m[0] == "a":
            fs.files.setdefault(path, bytearray())
            self.pos = len(fs.files[path])
        else:
            if path not in fs.files:
                raise FileNotFoundError(errno.ENOENT, "sim: no such file or directory", path)

    def fileno(self):
        # code under test may flush and os.fsync(f.fileno()): hand out a descriptor the OS seam recognises
        if self.fd is None:
            fs = self.fs
            self.fd = fs._next_fd
            fs._next_fd += 1
            fs.fds[self.fd] = {"path": self.path, "flags": os.O_RDWR}
        return self.fd

    def isatty(self):
        return False

    def readable(self):
        return self._readable

    def writable(self):
        return self._writable

    def seekable(self):
        return True

    def seek(self, off, whence=0):
        n = len(self.fs.files.get(self.path, b""))
        self.pos = {0: off, 1: self.pos + off, 2: n + off}[whence]
        return self.pos

    def tell(self):
        return self.pos

    def _eintr(self, what):
        """A system call interrupted by a signal before it transferred anything (EINTR): legal at any time, retried
        by CPython's buffered layer, so it must be invisible to the code under test."""
        fs = self.fs
        every = fs.plan.get("eintr")
        if not every:
            return
        if getattr(self, "_interrupted", False):
            self._interrupted = False        # the retry of the interrupted call goes through
            return
        fs.eintr_seen = getattr(fs, "eintr_seen", 0) + 1
        if fs.eintr_seen % int(every) == 0:
            self._interrupted = True
            if "eintr" not in fs.fired:
                fs.fired.append("eintr")
            fs.totals["eintr"] += 1
            raise InterruptedError(errno.EINTR, "sim: interrupted system call (" + what + ")", self.path)

    def readinto(self, b):
        fs = self.fs
        self._eintr("read")
        f = fs._fault("read", ("read_eio",))
        if f is not None:
            raise OSError(errno.EIO, "sim: read_eio", self.path)
        want = len(b)
        lim = fs.plan.get("short_read")
        if lim:
            if want > lim:
                fs.fired.append("short_read") if "short_read" not in fs.fired else None
            want = min(want, int(lim))
        data = fs.files.get(self.path, b"")[self.pos:self.pos + want]
        n = len(data)
        b[:n] = data
        self.pos += n
        fs.totals["bytes_read"] += n
        return n

    def write(self, b):
        fs = self.fs
        if self.dead or fs.dead:
            return len(b)          # crashed process: buffered bytes never reach the disk
        data = bytes(b)
        self._eintr("write")
        f = fs._fault("write", ("write_enospc", "write_eio", "crash"))
        if f is not None:
            keep = min(int(f.get("keep", 0)), len(data))
            self._store(data[:keep])
            if f["kind"] == "crash":
                fs.dead = True
                for h in fs.handles:
                    h.dead = True
                raise SimCrash(f"sim: crash during raw write #{f['at']} to {self.path}")
            code = errno.ENOSPC if f["kind"] == "write_enospc" else errno.EIO
            raise OSError(code, "sim: " + f["kind"], self.path)
        lim = fs.plan.get("short_write")
        if lim and len(data) > int(lim):
            data = data[: int(lim)]
            if "short_write" not in fs.fired:
                fs.fired.append("short_write")
        self._store(data)
        return len(data)

    def _store(self, data):
        if not data:
            return
        fs = self.fs
        buf = fs.files.setdefault(self.path, bytearray())
        if self._append:
            self.pos = len(buf)
        if self.pos > len(buf):
            buf.extend(b"\x00" * (self.pos - len(buf)))
        buf[self.pos:self.pos + len(data)] = data
        self.pos += len(data)
        fs.touched.add(self.path)
        fs.totals["bytes_written"] += len(data)

    def truncate(self, size=None):
        size = self.pos if size is None else size
        if not (self.dead or self.fs.dead) and self.path in self.fs.files:
            del self.fs.files[self.path][size:]
            self.fs.touched.add(self.path)
        return size

    def close(self):
        if self.closed:
            return
        super().close()
        fs = self.fs
        if self.fd is not None and getattr(self, "closefd", True):
            fs.fds.pop(self.fd, None)
        if self.dead or fs.dead:
            return
        f = fs._fault("close", ("close_eio",))
        if f is not None:
            raise OSError(errno.EIO, "sim: close_eio", self.path)


class NumpyProxy:
    """Stands in for the `numpy` module alias inside irispie.databoxes._imports: genfromtxt opens by name through SimFS."""

    def __init__(self, real, fs_getter):
        self._real = real
        self._fs = fs_getter

    def __getattr__(self, name):
        return getattr(self._real, name)

    def genfromtxt(self, fname, *args, **kwargs):
        if isinstance(fname, (str, bytes)) or hasattr(fname, "__fspath__"):
            with self._fs().open(fname, "rt") as fid:
                return self._real.genfromtxt(fid, *args, **kwargs)
        return self._real.genfromtxt(fname, *args, **kwargs)


_CURRENT = {"fs": None}


def current():
    return _CURRENT["fs"]


def _sim_open(*args, **kwargs):
    fs = _CURRENT["fs"]
    if fs is None:
        raise RuntimeError("sim: file opened outside a simulated world")
    return fs.open(*args, **kwargs)


_installed = False
_REAL = {}


def _is_sim(path):
    try:
        p = os.fspath(path)
    except TypeError:
        return False
    if isinstance(p, bytes):
        p = p.decode("utf-8", "replace")
    return p.startswith(SIM_PREFIX) or p + "/" == SIM_PREFIX


def _aware_open(file, *args, **kwargs):
    fs = _CURRENT["fs"]
    if fs is not None and ((isinstance(file, int) and file in fs.fds) or (not isinstance(file, int) and _is_sim(file))):
        return fs.open(file, *args, **kwargs)
    return _REAL["open"](file, *args, **kwargs)


def _install_os_seam():
    """
    Process-wide seam for everything addressed under /sim/: builtins.open, io.open, os.open/close/replace/rename/
    remove/unlink/stat/fsync, os.path.exists/isfile/getsize and numpy's data-source opener.  Any other path goes to
    the real functions, so the harness itself is unaffected.  Needed because code under test may reach the disk by
    another route than a bare open() (an opener= callback, a temporary file moved into place with os.replace).
    """
    _REAL.update({
        "open": builtins.open, "io_open": io.open, "os_open": os.open, "os_close": os.close, "os_replace": os.replace,
        "os_rename": os.rename, "os_remove": os.remove, "os_unlink": os.unlink, "os_stat": os.stat, "os_fsync": os.fsync,
        "exists": os.path.exists, "isfile": os.path.isfile, "getsize": os.path.getsize, "os_makedirs": os.makedirs,
        "os_lstat": os.lstat, "isdir": os.path.isdir, "os_listdir": os.listdir, "os_access": os.access,
        "os_chmod": os.chmod, "os_utime": os.utime, "os_mkdir": os.mkdir,
    })

    def fs_or_none():
        return _CURRENT["fs"]

    def os_open(path, flags, mode=0o777, *, dir_fd=None):
        fs = fs_or_none()
        if fs is not None and _is_sim(path):
            return fs.os_open(path, flags, mode)
        return _REAL["os_open"](path, flags, mode, dir_fd=dir_fd) if dir_fd is not None else _REAL["os_open"](path, flags, mode)

    def os_close(fd):
        fs = fs_or_none()
        if fs is not None and fd in fs.fds:
            return fs.os_close(fd)
        return _REAL["os_close"](fd)

    def two(name, method):
        def f(src, dst, **kw):
            fs = fs_or_none()
            if fs is not None and _is_sim(src) and _is_sim(dst):
                return getattr(fs, method)(src, dst)
            return _REAL[name](src, dst, **kw)
        return f

    def one(name, method):
        def f(path, **kw):
            fs = fs_or_none()
            if fs is not None and _is_sim(path):
                return getattr(fs, method)(path)
            return _REAL[name](path, **kw)
        return f

    def os_stat(path, **kw):
        fs = fs_or_none()
        if fs is not None and not isinstance(path, int) and _is_sim(path):
            return fs.stat(path)
        return _REAL["os_stat"](path, **kw)

    def os_fsync(fd):
        fs = fs_or_none()
        if fs is not None and fd in fs.fds:
            fs._count("os.fsync")
            return None
        return _REAL["os_fsync"](fd)

    def exists(path):
        fs = fs_or_none()
        if fs is not None and not isinstance(path, int) and _is_sim(path):
            p = os.fspath(path)
            return p in fs.files or p.rstrip("/") + "/" == SIM_PREFIX
        return _REAL["exists"](path)

    def isfile(path):
        fs = fs_or_none()
        if fs is not None and _is_sim(path):
            return os.fspath(path) in fs.files
        return _REAL["isfile"](path)

    def getsize(path):
        fs = fs_or_none()
        if fs is not None and _is_sim(path):
            return fs.stat(path).st_size
        return _REAL["getsize"](path)

    def makedirs(path, *a, **kw):
        fs = fs_or_none()
        if fs is not None and _is_sim(path):
            return None
        return _REAL["os_makedirs"](path, *a, **kw)

    def os_lstat(path, **kw):
        fs = fs_or_none()
        if fs is not None and not isinstance(path, int) and _is_sim(path):
            return fs.stat(path)
        return _REAL["os_lstat"](path, **kw)

    def isdir(path):
        fs = fs_or_none()
        if fs is not None and not isinstance(path, int) and _is_sim(path):
            p = os.fspath(path)
            return p.rstrip("/") + "/" == SIM_PREFIX
        return _REAL["isdir"](path)

    def listdir(path="."):
        fs = fs_or_none()
        if fs is not None and not isinstance(path, int) and _is_sim(path):
            p = os.fspath(path).rstrip("/") + "/"
            return sorted(k[len(p):] for k in fs.files if k.startswith(p) and "/" not in k[len(p):])
        return _REAL["os_listdir"](path)

    def access(path, mode, **kw):
        fs = fs_or_none()
        if fs is not None and not isinstance(path, int) and _is_sim(path):
            p = os.fspath(path)
            return p in fs.files or p.rstrip("/") + "/" == SIM_PREFIX
        return _REAL["os_access"](path, mode, **kw)

    def noop(name):
        def f(path, *a, **kw):
            fs = fs_or_none()
            if fs is not None and not isinstance(path, int) and _is_sim(path):
                return None
            return _REAL[name](path, *a, **kw)
        return f

    # descriptor-level calls on descriptors the seam handed out (advisory locks, truncation, stat, data sync)
    import fcntl as _fcntl
    _REAL.update({"flock": _fcntl.flock, "lockf": _fcntl.lockf, "os_ftruncate": os.ftruncate, "os_truncate": os.truncate,
                  "os_fstat": os.fstat, "os_fdatasync": getattr(os, "fdatasync", os.fsync)})

    def fd_of(x):
        try:
            return x if isinstance(x, int) else x.fileno()
        except Exception:
            return None

    def flock(fd, operation):
        fs = fs_or_none()
        if fs is not None and fd_of(fd) in fs.fds:
            fs._count("fcntl.flock")
            return None          # one process, one writer at a time: an advisory lock is always granted
        return _REAL["flock"](fd, operation)

    def lockf(fd, cmd, *a):
        fs = fs_or_none()
        if fs is not None and fd_of(fd) in fs.fds:
            fs._count("fcntl.lockf")
            return None
        return _REAL["lockf"](fd, cmd, *a)

    def truncate_to(fs, path, length):
        buf = fs.files.setdefault(path, bytearray())
        if fs.dead:
            return None
        if length < len(buf):
            del buf[length:]
        else:
            buf.extend(b"\x00" * (length - len(buf)))
        fs.touched.add(path)
        return None

    def ftruncate(fd, length):
        fs = fs_or_none()
        if fs is not None and fd in fs.fds:
            fs._count("os.ftruncate")
            return truncate_to(fs, fs.fds[fd]["path"], length)
        return _REAL["os_ftruncate"](fd, length)

    def truncate(path, length):
        fs = fs_or_none()
        if fs is not None and isinstance(path, int) and path in fs.fds:
            return ftruncate(path, length)
        if fs is not None and not isinstance(path, int) and _is_sim(path):
            fs._count("os.truncate")
            p = os.fspath(path)
            if p not in fs.files:
                raise FileNotFoundError(errno.ENOENT, "sim: no such file or directory", p)
            return truncate_to(fs, p, length)
        return _REAL["os_truncate"](path, length)

    def fstat(fd):
        fs = fs_or_none()
        if fs is not None and fd in fs.fds:
            return fs.stat(fs.fds[fd]["path"])
        return _REAL["os_fstat"](fd)

    def fdatasync(fd):
        fs = fs_or_none()
        if fs is not None and fd in fs.fds:
            fs._count("os.fdatasync")
            return None
        return _REAL["os_fdatasync"](fd)

    # raw descriptor I/O on simulated descriptors goes through the same SimRaw (and so through the same fault plan)
    _REAL.update({"os_write": os.write, "os_read": os.read, "os_lseek": os.lseek, "os_dup": os.dup,
                  "os_sendfile": getattr(os, "sendfile", None)})

    def raw_of(fs, fd):
        ent = fs.fds[fd]
        raw = ent.get("raw")
        if raw is None or raw.closed:
            acc = ent["flags"] & (os.O_WRONLY | os.O_RDWR)
            mode = "rb+" if acc == os.O_RDWR else ("wb" if acc == os.O_WRONLY else "rb")
            raw = SimRaw(fs, ent["path"], mode, fd=fd, flags=ent["flags"])
            raw.closefd = False
            fs.handles.append(raw)
            ent["raw"] = raw
        return raw

    def os_write(fd, data):
        fs = fs_or_none()
        if fs is not None and fd in fs.fds:
            fs._count("os.write")
            return raw_of(fs, fd).write(data)
        return _REAL["os_write"](fd, data)

    def os_read(fd, n):
        fs = fs_or_none()
        if fs is not None and fd in fs.fds:
            fs._count("os.read")
            b = bytearray(n)
            k = raw_of(fs, fd).readinto(b)
            return bytes(b[:k or 0])
        return _REAL["os_read"](fd, n)

    def os_lseek(fd, pos, how):
        fs = fs_or_none()
        if fs is not None and fd in fs.fds:
            return raw_of(fs, fd).seek(pos, how)
        return _REAL["os_lseek"](fd, pos, how)

    def os_dup(fd):
        fs = fs_or_none()
        if fs is not None and fd in fs.fds:
            new = fs._next_fd
            fs._next_fd += 1
            fs.fds[new] = {"path": fs.fds[fd]["path"], "flags": fs.fds[fd]["flags"]}
            return new
        return _REAL["os_dup"](fd)

    def os_sendfile(out_fd, in_fd, offset, count, *a, **kw):
        fs = fs_or_none()
        if fs is not None and (out_fd in fs.fds or in_fd in fs.fds):
            # no zero-copy between simulated files: tell the caller to fall back to read/write (shutil does)
            raise OSError(errno.ENOTSOCK, "sim: sendfile is not available on the simulated disk")
        return _REAL["os_sendfile"](out_fd, in_fd, offset, count, *a, **kw)

    os.write = os_write
    os.read = os_read
    os.lseek = os_lseek
    os.dup = os_dup
    if _REAL["os_sendfile"] is not None:
        os.sendfile = os_sendfile
    _fcntl.flock = flock
    _fcntl.lockf = lockf
    os.ftruncate = ftruncate
    os.truncate = truncate
    os.fstat = fstat
    if hasattr(os, "fdatasync"):
        os.fdatasync = fdatasync
    os.lstat = os_lstat
    os.path.isdir = isdir
    os.listdir = listdir
    os.access = access
    os.chmod = noop("os_chmod")
    os.utime = noop("os_utime")
    os.mkdir = noop("os_mkdir")
    builtins.open = _aware_open
    io.open = _aware_open
    os.open = os_open
    os.close = os_close
    os.replace = two("os_replace", "rename")
    os.rename = two("os_rename", "rename")
    os.remove = one("os_remove", "remove")
    os.unlink = one("os_unlink", "remove")
    os.stat = os_stat
    os.fsync = os_fsync
    os.makedirs = makedirs
    os.path.exists = exists
    os.path.isfile = isfile
    os.path.getsize = getsize
    try:
        import numpy.lib._datasource as ds
        ds._file_openers._load()
        ds._file_openers._file_openers[None] = _aware_open
    except Exception:
        pass


def install(fs: SimFS):
    """Bind the file seam of every irispie module that opens files by bare name (module globals shadow builtins)."""
    global _installed
    _CURRENT["fs"] = fs
    if _installed:
        return
    import numpy as np
    import irispie.databoxes._exports as ex
    import irispie.databoxes._imports as im
    import irispie.databoxes.main as dm
    import irispie.file_io as fio
    import irispie.simultaneous._io as sio
    _install_os_seam()
    for mod in (ex, im, dm, fio, sio):
        mod.open = _sim_open
    im._np = NumpyProxy(np, current)
    _installed = True
