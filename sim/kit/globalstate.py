"""
Fingerprint of irispie's process-global mutable state: module-level and class-level dict / list / set objects.

Not an oracle by itself (a well-keyed cache is a legitimate change of module state): the models world uses a change
of this fingerprint during a run as the TRIGGER for the expensive clean-room comparison, which replays a replica's
logical log in a fresh interpreter and compares behaviour.
"""

from __future__ import annotations

import enum as _enum
import hashlib
import sys

_SCALARS = (int, float, str, bool, bytes, type(None), complex)


def _canon(v, depth):
    if isinstance(v, _SCALARS):
        return repr(v)
    if depth <= 0:
        try:
            return f"<{type(v).__name__}:{len(v)}>"
        except Exception:
            return f"<{type(v).__name__}>"
    if isinstance(v, dict):
        items = sorted(((_canon(k, 0) if not isinstance(k, _SCALARS) else repr(k)), _canon(x, depth - 1)) for k, x in v.items())
        return "{" + ",".join(f"{k}:{x}" for k, x in items) + "}"
    if isinstance(v, (list, tuple)):
        return "[" + ",".join(_canon(x, depth - 1) for x in v) + "]"
    if isinstance(v, (set, frozenset)):
        return "{" + ",".join(sorted(_canon(x, depth - 1) for x in v)) + "}"
    return f"<{type(v).__module__}.{type(v).__qualname__}>"


def snapshot(prefix="irispie", depth=3):
    """name -> canonical string of every module-level / class-level container under the package."""
    out = {}
    for name in sorted(sys.modules):
        if not (name == prefix or name.startswith(prefix + ".")):
            continue
        mod = sys.modules[name]
        d = getattr(mod, "__dict__", None)
        if not d:
            continue
        for k in sorted(d):
            if k.startswith("__"):
                continue
            v = d[k]
            if isinstance(v, (dict, list, set)):
                out[f"{name}.{k}"] = _canon(v, depth)
            elif isinstance(v, type) and getattr(v, "__module__", None) == name:
                if issubclass(v, _enum.Enum):
                    continue      # enum internals (_value2member_map_ of flags) fill lazily
                for ak, av in sorted(vars(v).items()):
                    if not ak.startswith("__") and isinstance(av, (dict, list, set)):
                        out[f"{name}.{k}.{ak}"] = _canon(av, depth)
    return out


def fingerprint(prefix="irispie"):
    s = snapshot(prefix)
    h = hashlib.sha1()
    for k in sorted(s):
        h.update(k.encode())
        h.update(b"=")
        h.update(s[k].encode())
        h.update(b"\n")
    return h.hexdigest()


def diff(a, b):
    return sorted(k for k in set(a) | set(b) if a.get(k) != b.get(k))
