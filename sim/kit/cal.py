"""
Independent calendar arithmetic for the reference models (no irispie code).

A period is (freq letter, serial:int).  Regular frequencies: serial = year*f + (segment-1).
Daily: proleptic Gregorian ordinal.  Integer: the number itself.
"""

from __future__ import annotations

import calendar
import datetime as dt

FREQ_VALUE = {"Y": 1, "H": 2, "Q": 4, "M": 12, "D": 365, "I": 0}
REGULAR = ("Y", "H", "Q", "M")
ALL_FREQS = ("Y", "H", "Q", "M", "D", "I")


def year_of(f: str, s: int) -> int:
    if f == "D":
        return dt.date.fromordinal(s).year
    if f == "I":
        raise ValueError("integer periods have no year")
    return s // FREQ_VALUE[f]


def segment_of(f: str, s: int) -> int:
    if f == "D":
        d = dt.date.fromordinal(s)
        return (d - dt.date(d.year, 1, 1)).days + 1
    if f == "I":
        raise ValueError("integer periods have no segment")
    return s % FREQ_VALUE[f] + 1


def soy(f: str, s: int) -> int:
    if f == "D":
        return dt.date(year_of(f, s), 1, 1).toordinal()
    v = FREQ_VALUE[f]
    return (s // v) * v


def eoy(f: str, s: int) -> int:
    if f == "D":
        return dt.date(year_of(f, s), 12, 31).toordinal()
    v = FREQ_VALUE[f]
    return (s // v) * v + v - 1


def eopy(f: str, s: int) -> int:
    return soy(f, s) - 1


def tty(f: str, s: int):
    return None if s == soy(f, s) else s - 1


def yoy(f: str, s: int) -> int:
    # "one year back" in number of periods; for daily the library documents a fixed 365
    return s - FREQ_VALUE[f]


def ymd_start(f: str, s: int) -> dt.date:
    if f == "D":
        return dt.date.fromordinal(s)
    v = FREQ_VALUE[f]
    y, seg = divmod(s, v)
    m = (seg * 12) // v + 1
    return dt.date(y, m, 1)


def ymd_end(f: str, s: int) -> dt.date:
    if f == "D":
        return dt.date.fromordinal(s)
    v = FREQ_VALUE[f]
    y, seg = divmod(s, v)
    m = ((seg + 1) * 12) // v
    return dt.date(y, m, calendar.monthrange(y, m)[1])


def ymd_middle(f: str, s: int) -> dt.date:
    """Documented middle-of-period day table of the library (mid month = 15th; see dates.py tables)."""
    raise NotImplementedError


def containing(f: str, d: dt.date) -> int:
    """Serial of the period of frequency f that contains calendar day d."""
    if f == "D":
        return d.toordinal()
    v = FREQ_VALUE[f]
    return d.year * v + (d.month - 1) * v // 12


def serial_from_year_segment(f: str, year: int, seg: int) -> int:
    if f == "D":
        return dt.date(year, 1, 1).toordinal() + seg - 1
    return year * FREQ_VALUE[f] + seg - 1


def valid_serial(f: str, s: int) -> bool:
    if f == "D":
        return dt.date(1, 1, 1).toordinal() + 400 <= s <= dt.date(9999, 12, 31).toordinal() - 400
    if f == "I":
        return True
    v = FREQ_VALUE[f]
    return 1 * v <= s < 9999 * v
