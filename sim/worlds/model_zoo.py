"""
Model zoo and class adapters for the `models` world (property C20).

An adapter knows how to build a model of its class from a template, apply the public mutators, and
compute observables through the public API:
  cheap(m): stored state only (parameters, steady values, solution matrices, structure) - digested after
            every step for the isolation monitor;
  deep(m):  behaviour (simulation paths, likelihood, autocovariances, ...) - compared at spawn, against
            the fresh replay of the logical log, and against singleton models in the split check.
Observables are plain nested dict/list/float/str/None structures.
"""

from __future__ import annotations

import contextlib
import io
import math

import numpy as np

ir = None


def _irispie():
    global ir
    if ir is None:
        import irispie as _ir
        ir = _ir
    return ir


def quiet(f):
    with contextlib.redirect_stdout(io.StringIO()):
        return f()


# --------------------------------------------------------------------------------------------------
# templates

LIN_FWD = """
!transition-variables
    "Output gap" y, "Inflation" pi, r
!transition-shocks
    ey, epi, er
!parameters
    a, b, c, rho, ss_pi
!transition-equations
    y = a*y{-1} + (1-a)*y{+1} - b*(r - pi{+1}) + ey;
    pi = c*pi{-1} + (1-c)*pi{+1} + 0.1*y + epi;
    r = rho*r{-1} + (1-rho)*(ss_pi + 1.5*(pi{+1}-ss_pi) + 0.5*y) + er;
!measurement-variables
    obs_y, obs_pi
!measurement-shocks
    my
!measurement-equations
    obs_y = y + my;
    obs_pi = pi;
"""

LIN_BWD = """
!transition-variables
    x, z
!transition-shocks
    ex, ez
!parameters
    rx, rz, k, mu
!transition-equations
    x = rx*x{-1} + (1-rx)*mu + ex;
    z = rz*z{-1} + k*x{-1} + ez;
!measurement-variables
    ox
!measurement-equations
    ox = x + z;
"""

NONLIN = """
!transition-variables
    y, k, c, a
!log-variables
    !all-but
!transition-shocks
    ea
!parameters
    alpha, beta, delta, rho, g
!transition-equations
    y = a * k{-1}^alpha;
    k = (1-delta)*k{-1} + y - c;
    1/c = beta * (1/c{+1}) * (alpha*y{+1}/k + 1 - delta);
    log(a) = rho*log(a{-1}) + (1-rho)*log(g) + ea !! a = g;
"""

DETERMINISTIC = """
!transition-variables
    x, w
!parameters
    rx, mu, g
!transition-equations
    x = rx*x{-1} + (1-rx)*mu;
    w = g*w{-1} + x;
"""

CONTEXT_FUNC = """
!transition-variables
    x, z
!transition-shocks
    ex
!parameters
    rx, mu, kk
!transition-equations
    x = rx*x{-1} + (1-rx)*mu + ex !! x = target(mu);
    z = twice(kk)*x + z{-1}*0.5;
"""

AUTODECL = """
!transition-variables
    x, z
!transition-shocks
    ex, ez
!transition-equations
    x = rx*x{-1} + (1-rx)*mu + ex;
    z = rz*z{-1} + kk*x{-1} + ez;
!measurement-variables
    ox
!measurement-equations
    ox = x + z;
"""

EXOG = """
!transition-variables
    x, z
!exogenous-variables
    w, v
!log-variables
    w, z
!parameters
    rx, mu
!transition-equations
    x = rx*x{-1} + (1-rx)*mu + log(w) + v;
    log(z) = 0.5*log(z{-1}) + 0.1*x;
"""

AUTOVAL = """
!transition-variables
    y, c
!log-variables
    y
!transition-shocks
    ey
!parameters
    g, rc, lag_ratio, lag_diff
!transition-equations
    y = g*y{-1}*exp(ey);
    c = rc*c{-1} + (1-rc)*lag_ratio + 0*lag_diff;
!steady-autovalues
    lag_ratio = y{-1}/y{-2};
    lag_diff = y{-1} - y{-2};
"""

AUTOVAL_DET = AUTOVAL.replace("""!transition-shocks
    ey
""", "").replace("*exp(ey)", "")

SEQ_A = """
!parameters
    c0, ss
!equations
    pct(x) = c0*pct(x[-1]) + (1-c0)*ss;
    y = x + x[-1] + w;
"""

SEQ_B = """
!parameters
    c0, c1, ss
!equations
    diff(v) = c1*diff(v[-1]) + u;
    log(x) = c0*log(x[-1]) + (1-c0)*log(ss) + 0.1*v;
    y = x + c1*w;
    roc(q) = 1 + c0*0.01;
"""


def twice(x):
    return 2 * x


def thrice(x):
    return 3 * x


def target(x):
    """used on the steady side of an equation only"""
    return x


TEMPLATES = {
    "lin_fwd": {"cls": "sim", "source": LIN_FWD, "flags": {"linear": True},
                "params": {"a": (0.3, 0.7), "b": (0.1, 0.4), "c": (0.3, 0.7), "rho": (0.1, 0.8), "ss_pi": (0.0, 3.0)},
                "init": {}, "shocks": ["ey", "epi"], "shock_size": 1.0, "measurement": True},
    "lin_bwd": {"cls": "sim", "source": LIN_BWD, "flags": {"linear": True},
                "params": {"rx": (0.1, 0.9), "rz": (0.1, 0.9), "k": (-0.5, 0.5), "mu": (-1.0, 2.0)},
                "init": {}, "shocks": ["ex", "ez"], "shock_size": 1.0, "measurement": True},
    "nonlin": {"cls": "sim", "source": NONLIN, "flags": {"flat": True},
               "params": {"alpha": (0.25, 0.4), "beta": (0.95, 0.99), "delta": (0.03, 0.1), "rho": (0.5, 0.9), "g": (0.9, 1.2)},
               "init": {"y": 1.0, "k": 5.0, "c": 0.8, "a": 1.0}, "shocks": ["ea"], "shock_size": 0.01, "measurement": False,
               "logly_names": ["y", "k", "c", "a"], "growth": True},
    "determ": {"cls": "sim", "source": DETERMINISTIC, "flags": {"linear": True, "deterministic": True},
               "params": {"rx": (0.1, 0.9), "mu": (-1.0, 2.0), "g": (0.1, 0.8)},
               "init": {}, "shocks": [], "shock_size": 0.0, "measurement": False},
    "ctxfun": {"cls": "sim", "source": CONTEXT_FUNC, "flags": {"linear": True}, "context": True,
               "params": {"rx": (0.1, 0.9), "mu": (-1.0, 2.0), "kk": (0.1, 0.4)},
               "init": {}, "shocks": ["ex"], "shock_size": 1.0, "measurement": False},
    # parameters are NOT declared: irispie autodeclares them in set order, so their ids depend on PYTHONHASHSEED -
    # the serialised model must carry its own order into an interpreter with another hash seed
    "autodecl": {"cls": "sim", "source": AUTODECL, "flags": {"linear": True}, "autodeclare_as": "parameters",
                 "params": {"rx": (0.1, 0.9), "rz": (0.1, 0.9), "kk": (-0.5, 0.5), "mu": (-1.0, 2.0)},
                 "init": {}, "shocks": ["ex", "ez"], "shock_size": 1.0, "measurement": True},
    # exogenous variables, one of them a log-variable; deterministic, so the whole portable clause applies
    "exog": {"cls": "sim", "source": EXOG, "flags": {"flat": True, "deterministic": True},
             "params": {"rx": (0.2, 0.8), "mu": (0.5, 1.5)},
             "init": {"w": 2.0, "v": 0.1, "x": 1.0, "z": 1.0}, "shocks": [], "shock_size": 0.0, "measurement": False},
    # parameters computed from the steady state by a !steady-autovalues block whose right-hand sides read lags of a
    # growing variable: the compiled updater depends on the log status, which change_logly flips later
    "autoval": {"cls": "sim", "source": AUTOVAL, "flags": {},
                "params": {"g": (1.0, 1.05), "rc": (0.2, 0.8)},
                "init": {"y": {"t": [1.0, 1.02]}, "c": 1.0, "lag_ratio": 1.0, "lag_diff": 0.0},
                "shocks": ["ey"], "shock_size": 0.01, "measurement": False, "logly_names": ["y", "c"], "growth": True,
                "autovalues": True},
    # the same without shocks: such a model can be exported to the portable form, steady-autovalue equations included
    "autoval_det": {"cls": "sim", "source": AUTOVAL_DET, "flags": {"deterministic": True},
                    "params": {"g": (1.0, 1.05), "rc": (0.2, 0.8)},
                    "init": {"y": {"t": [1.0, 1.02]}, "c": 1.0, "lag_ratio": 1.0, "lag_diff": 0.0},
                    "shocks": [], "shock_size": 0.0, "measurement": False, "logly_names": ["y", "c"], "growth": True,
                    "autovalues": True},
    # the same linear model created with a default standard deviation of its own: it is part of what a replica carries
    "lin_bwd_std": {"cls": "sim", "source": LIN_BWD, "flags": {"linear": True}, "build_kw": {"default_std": 0.5},
                    "params": {"rx": (0.1, 0.9), "rz": (0.1, 0.9), "k": (-0.5, 0.5), "mu": (-1.0, 2.0)},
                    "init": {}, "shocks": ["ex", "ez"], "shock_size": 1.0, "measurement": True},
    "seq_a": {"cls": "seq", "source": SEQ_A, "params": {"c0": (0.2, 0.9), "ss": (0.1, 2.0)}},
    "seq_b": {"cls": "seq", "source": SEQ_B, "params": {"c0": (0.2, 0.9), "c1": (0.1, 0.8), "ss": (0.5, 2.0)}},
    "var1": {"cls": "var", "names": ["x", "z"], "order": 1, "intercept": True},
    "var2": {"cls": "var", "names": ["x", "z", "q"], "order": 2, "intercept": True},
}


# --------------------------------------------------------------------------------------------------
# observable helpers

def fl(x):
    """canonical scalar"""
    if x is None:
        return None
    if isinstance(x, (bool, str, int)) and not isinstance(x, np.generic):
        return x
    if isinstance(x, complex) or isinstance(x, np.complexfloating):
        x = complex(x)
        return ["c", float(x.real), float(x.imag)]
    try:
        return float(x)
    except Exception:
        return repr(x)


def arr(a):
    if a is None:
        return None
    a = np.asarray(a)
    if a.dtype == object:
        return [fl(x) for x in a.flatten().tolist()]
    if np.iscomplexobj(a):
        return {"shape": list(a.shape), "re": np.real(a).astype(float).flatten().tolist(), "im": np.imag(a).astype(float).flatten().tolist()}
    return {"shape": list(a.shape), "v": a.astype(float).flatten().tolist()}


def obs_diff(a, b, rtol=0.0, path=""):
    """First difference between two observable structures, or None."""
    if isinstance(a, dict) and isinstance(b, dict):
        if set(a) != set(b):
            return f"{path}: keys differ {sorted(set(a) ^ set(b))[:6]}"
        for k in a:
            d = obs_diff(a[k], b[k], rtol, f"{path}/{k}")
            if d:
                return d
        return None
    if isinstance(a, (list, tuple)) and isinstance(b, (list, tuple)):
        if len(a) != len(b):
            return f"{path}: lengths {len(a)} vs {len(b)}"
        for i, (x, y) in enumerate(zip(a, b)):
            d = obs_diff(x, y, rtol, f"{path}[{i}]")
            if d:
                return d
        return None
    if isinstance(a, float) and isinstance(b, (float, int)) or isinstance(b, float) and isinstance(a, (float, int)):
        a, b = float(a), float(b)
        if math.isnan(a) and math.isnan(b):
            return None
        if a == b:
            return None
        if rtol and math.isfinite(a) and math.isfinite(b) and abs(a - b) <= rtol * max(abs(a), abs(b)) + rtol * 1e-3:
            return None
        return f"{path}: {a!r} vs {b!r}"
    if a != b:
        return f"{path}: {a!r} vs {b!r}"
    return None


def project(obs, k):
    """Observables of variant k out of multi-variant observables (lists indexed by variant under 'V' keys)."""
    if isinstance(obs, dict):
        if obs.get("__by_variant__"):
            v = obs["v"]
            return v[min(k, len(v) - 1)] if v else None
        return {key: project(val, k) for key, val in obs.items()}
    if isinstance(obs, list):
        return [project(x, k) for x in obs]
    return obs


def byv(values):
    return {"__by_variant__": True, "v": list(values)}


# --------------------------------------------------------------------------------------------------
# adapters

SPAN_START = ("Q", 8080)    # 2020-Q1
SPAN_LEN = 8


def _span():
    ir = _irispie()
    s = ir.qq(2020, 1)
    return s >> (s + SPAN_LEN - 1)


class SimAdapter:
    cls = "sim"
    spawn_kinds = ("copy", "pickle", "dill", "portable", "deepcopy", "pickle_bytes", "dill_bytes")
    file_kinds = ("save", "save_pickle", "to_pickle_file", "to_dill_file", "to_portable_file", "save_dill")

    def build(self, tname):
        ir = _irispie()
        t = TEMPLATES[tname]
        kw = dict(t["flags"])
        ctx = None
        if t.get("context"):
            ctx = {"twice": twice, "target": target}
            kw["context"] = ctx
        if t.get("autodeclare_as"):
            kw["autodeclare_as"] = t["autodeclare_as"]
        kw.update(t.get("build_kw", {}))
        m = ir.Simultaneous.from_string(t["source"], **kw)
        if ctx is not None:
            # the dict belongs to the caller, who goes on using it (say, for a second model): nothing the caller does
            # to it afterwards may reach the model or the replicas taken from it later
            ctx["twice"] = thrice
            ctx["unrelated"] = 1.0
        return m

    # -- mutators ---------------------------------------------------------------------------------
    def mutate(self, m, op):
        k = op["k"]
        if k == "assign":
            vals = {}
            for name, v in op["values"].items():
                if isinstance(v, dict):
                    vals[name] = (v["t"][0], v["t"][1])
                elif isinstance(v, list):
                    vals[name] = [(x["t"][0], x["t"][1]) if isinstance(x, dict) else x for x in v]
                else:
                    vals[name] = v
            m.assign(**vals)
        elif k == "alter":
            m.alter_num_variants(op["n"])
        elif k == "assign_variant":
            # model[k] is a view sharing variant k with its parent: assigning through it changes that variant only
            how = op.get("how", "getitem")
            view = m[op["v"] % m.num_variants] if how == "getitem" else m.get_variant(op["v"] % m.num_variants)
            view.assign(**op["values"])
        elif k == "steady":
            if op.get("settings"):
                quiet(lambda: m.solve_steady(solver_settings=dict(op["settings"])))
            else:
                quiet(lambda: m.solve_steady())
        elif k == "solve":
            quiet(lambda: m.solve())
        elif k == "describe":
            m.set_description(op["s"])
        elif k == "rescale_stds":
            m.rescale_stds(op["factor"])
        elif k == "reset_stds":
            m.reset_stds()
        elif k == "change_logly":
            m.change_logly(op["logly"], list(op["names"]))
        elif k == "override_tolerance":
            m.override_tolerance(**op["values"])
        elif k == "reset_tolerance":
            m.reset_tolerance()
        elif k == "autovalues":
            m.update_steady_autovalues()
        elif k == "portable_roundtrip":
            import json
            ir = _irispie()
            return ir.Simultaneous.from_portable(json.loads(json.dumps(m.to_portable())))
        else:
            raise ValueError(k)
        return m

    def project_op(self, op, j):
        """The same mutator as seen by a singleton model that follows variant j."""
        if op["k"] == "assign":
            vals = {}
            for name, v in op["values"].items():
                vals[name] = v[min(j, len(v) - 1)] if isinstance(v, list) else v
            return {"k": "assign", "values": vals}
        if op["k"] == "alter":
            return None
        return op

    # -- observables ------------------------------------------------------------------------------
    def cheap(self, m):
        out = {"nv": m.num_variants, "desc": m.get_description(),
               "flags": [m.is_linear, m.is_flat, m.is_deterministic]}
        out["quantities"] = [[q.human, str(q.kind), q.logly, q.description] for q in m.quantities]
        out["tolerance"] = {k: fl(v) for k, v in sorted(dict(m.get_tolerance()).items())}
        out["dynamic"] = list(m.get_dynamic_equations())
        out["steady_eq"] = list(m.get_steady_equations())
        nv = m.num_variants
        for key, getter in (("params", m.get_parameters), ("stds", m.get_stds), ("levels", m.get_steady_levels), ("changes", m.get_steady_changes)):
            d = getter(unpack_singleton=False)
            out[key] = {n: byv([fl(x) for x in v]) for n, v in d.items()}
        sols = []
        for s in m.get_solution(unpack_singleton=False):
            if s is None:
                sols.append(None)
            else:
                sols.append({n: arr(getattr(s, n)) for n in ("T", "P", "K", "Z", "H", "D")})
        out["solution"] = byv(sols)
        return out

    def deep(self, m, tname, horizon=3):
        ir = _irispie()
        t = TEMPLATES[tname]
        out = {}
        span = _span()
        nv = m.num_variants

        def cols(s):
            a = np.asarray(s.get_data(span), dtype=float)
            return byv([a[:, min(k, a.shape[1] - 1)].tolist() for k in range(nv)])
        sim = None
        try:
            db = ir.Databox.steady(m, span)
            if t["shocks"]:
                db[t["shocks"][0]][span[0]] = t["shock_size"]
                aname = "ant_" + t["shocks"][-1]
                if aname in db:
                    db[aname][span[0] + horizon] = 0.5 * t["shock_size"]
            else:
                first = [q.human for q in m.quantities if "TRANSITION_VARIABLE" in str(q.kind)][0]
                db[first][span[0] - 1] = 3.0
            sim = quiet(lambda: m.simulate(db, span, method="first_order"))
            names = [q.human for q in m.quantities if "VARIABLE" in str(q.kind)]
            out["sim"] = {n: cols(sim[n]) for n in names}
        except Exception as e:
            out["sim"] = "EXC:" + type(e).__name__
        if t["measurement"] and sim is not None:
            try:
                # filter the simulated data with the anticipated shocks taken from the data: this is the reader of the
                # triangular forward expansion (the simulation above is the reader of the square one)
                kfa = quiet(lambda: m.kalman_filter(sim, span, shocks_from_data=True))
                names = [q.human for q in m.quantities if "TRANSITION_VARIABLE" in str(q.kind)]
                out["smooth_ant"] = {n: cols(kfa["smooth_med"][n]) for n in names if n in kfa["smooth_med"]}
            except Exception as e:
                out["smooth_ant"] = "EXC:" + type(e).__name__
            try:
                kf, info = quiet(lambda: m.kalman_filter(sim, span, return_info=True))
                infos = info if isinstance(info, (list, tuple)) else [info]
                out["nll"] = byv([fl(i["neg_log_likelihood"]) for i in infos])
                sm = kf["smooth_med"]
                names = [q.human for q in m.quantities if "TRANSITION_VARIABLE" in str(q.kind)]
                out["smooth"] = {n: cols(sm[n]) for n in names if n in sm}
            except Exception as e:
                out["smooth"] = "EXC:" + type(e).__name__
        # the unsolved first-order system at the current values: exposes what a later solve() would start from
        # (stale derived descriptors show up here before anybody re-solves)
        try:
            systems = m.systemize(unpack_singleton=False)
            out["system"] = byv([{n: arr(getattr(sy, n)) for n in ("A", "B", "C", "D", "F", "G", "H", "J")} for sy in systems])
        except Exception as e:
            out["system"] = "EXC:" + type(e).__name__
        if t["shocks"]:
            try:
                ac = m.get_acov(up_to_order=1, unpack_singleton=False)
                out["acov"] = byv([[arr(x) for x in v] for v in ac])
            except Exception as e:
                out["acov"] = "EXC:" + type(e).__name__
        # further derived views of the same state, each through its own public getter
        def view(key, thunk):
            try:
                out[key] = thunk()
            except Exception as e:
                out[key] = "EXC:" + type(e).__name__
        view("cov_u", lambda: byv([arr(x) for x in m.get_cov_transition_shocks(unpack_singleton=False)]))
        view("cov_w", lambda: byv([arr(x) for x in m.get_cov_measurement_shocks(unpack_singleton=False)]))
        view("initials", lambda: [str(x) for x in m.get_initials()])
        view("eigenvalues", lambda: byv([[fl(x) for x in v] for v in m.get_eigenvalues(unpack_singleton=False)]))
        view("stability", lambda: byv([[str(x) for x in v] for v in m.get_eigenvalues_stability(unpack_singleton=False)]))
        view("variable_stability", lambda: byv([{k: str(x) for k, x in v.items()} for v in m.get_variable_stability(unpack_singleton=False)]))
        view("steady_pairs", lambda: {n: byv([[fl(a), fl(b)] for a, b in v]) for n, v in m.get_steady(unpack_singleton=False).items()})
        view("log_status", lambda: {k: bool(v) for k, v in dict(m.get_log_status()).items()})
        # variant by variant: which equations the assigned steady state fails and by how much
        view("check_steady", lambda: byv([{"failed": list(i["failed_equations"]), "discrepancies": arr(i["discrepancies"])}
                                          for i in quiet(lambda: m.check_steady(when_fails="silent", return_info=True, unpack_singleton=False))[1]]))
        # the steady-state versions of the equations (the `!!` sides) are compiled separately from the dynamic ones
        view("check_steady_eq", lambda: byv([{"failed": list(i["failed_equations"]), "discrepancies": arr(i["discrepancies"])}
                                             for i in quiet(lambda: m.check_steady(equation_switch="steady", when_fails="silent", return_info=True, unpack_singleton=False))[1]]))
        if t["shocks"]:
            view("acorr", lambda: byv([[arr(x) for x in v] for v in m.get_acorr(up_to_order=1, unpack_singleton=False)]))
        if tname == "nonlin" and sim is not None:
            try:
                db = ir.Databox.steady(m, span)
                db["ea"][span[0]] = 0.01
                st = quiet(lambda: m.simulate(db, span, method="stacked_time"))
                out["stacked"] = {n: cols(st[n]) for n in ("y", "k", "c", "a")}
            except Exception as e:
                out["stacked"] = "EXC:" + type(e).__name__
        return out

    def read(self, m, tname, r):
        """A read-only public operation (walks internal memo state, must not change observables)."""
        ir = _irispie()
        t = TEMPLATES[tname]
        span = _span()
        k = r["k"]
        if k == "simulate":
            db = ir.Databox.steady(m, span, deviation=r.get("deviation", False))
            if t["shocks"]:
                aname = "ant_" + t["shocks"][0]
                if aname in db:
                    db[aname][span[0] + r["horizon"]] = 1.0
            quiet(lambda: m.simulate(db, span, method="first_order", deviation=r.get("deviation", False)))
        elif k == "acov":
            m.get_acov(up_to_order=r.get("order", 1))
        elif k == "getters":
            m.get_parameters()
            m.get_steady_levels()
            m.get_eigenvalues()
            m.get_solution()
            m.systemize()
        elif k == "kalman":
            db = ir.Databox.steady(m, span)
            if r.get("ant") and t["shocks"]:
                aname = "ant_" + t["shocks"][0]
                if aname in db:
                    db[aname][span[0] + r.get("horizon", 2)] = 1.0
                quiet(lambda: m.kalman_filter(db, span, shocks_from_data=True))
            else:
                quiet(lambda: m.kalman_filter(db, span))
        elif k == "iterate":
            pieces = list(m)
            return pieces
        elif k == "view":
            v = m.get_variant(r.get("v", 0) % m.num_variants)
            v.get_parameters()
        else:
            raise ValueError(k)

    def portable_fields(self, m):
        """What the portable representation promises to round-trip."""
        return {
            "names": sorted(q.human for q in m.quantities if not q.human.startswith(("std_", "ant_"))),
            "kinds": {q.human: str(q.kind) for q in m.quantities if not q.human.startswith(("std_", "ant_"))},
            "log": {q.human: q.logly for q in m.quantities if not q.human.startswith(("std_", "ant_"))},
            "flags": [m.is_linear, m.is_flat, m.is_deterministic],
            "dynamic": sorted(m.get_dynamic_equations()),
            "steady_eq": sorted(m.get_steady_equations()),
            "params": {n: [fl(x) for x in v] for n, v in m.get_parameters(unpack_singleton=False).items()},
            "nv": m.num_variants,
            "desc": m.get_description(),
        }


class SeqAdapter:
    cls = "seq"
    spawn_kinds = ("copy", "dill", "deepcopy")
    file_kinds = ("save", "save_dill")

    def build(self, tname):
        ir = _irispie()
        return ir.Sequential.from_string(TEMPLATES[tname]["source"])

    def mutate(self, m, op):
        k = op["k"]
        if k == "assign":
            m.assign(**op["values"])
        elif k == "assign_variant":
            m.get_variant(op["v"] % m.num_variants).assign(**op["values"])
        elif k == "alter":
            m.alter_num_variants(op["n"])
        elif k == "reorder":
            n = m.num_equations
            order = [i % n for i in op["order"]][:n]
            if sorted(order) != list(range(n)):
                order = list(reversed(range(n)))
            m.reorder_equations(order)
        elif k == "sequentialize":
            m.sequentialize()
        else:
            raise ValueError(k)
        return m

    def project_op(self, op, j):
        if op["k"] == "assign_variant":
            return None     # handled by the caller (needs the variant count at that time)
        if op["k"] == "alter":
            return None
        return op

    def cheap(self, m):
        out = {"nv": m.num_variants, "equations": list(m.equation_strings), "lhs": list(m.lhs_names),
               "names": sorted(m.all_names), "sequential": bool(m.is_sequential)}
        p = m.get_parameters(unpack_singleton=False)
        out["params"] = {n: byv([fl(x) for x in (v if isinstance(v, list) else [v])]) for n, v in p.items()}
        return out

    def _input(self, m):
        ir = _irispie()
        s = ir.qq(2020, 1)
        db = ir.Databox()
        n = SPAN_LEN + 4
        for i, name in enumerate(sorted(set(m.all_names) - set(m.parameter_names))):
            if name.startswith("res_"):
                continue
            base = 1.0 + 0.25 * i
            db[name] = ir.Series(start=s - 3, values=tuple(base + 0.01 * ((7 * j + 3 * i) % 11) for j in range(n)))
        return db

    def deep(self, m, tname, horizon=3):
        out = {}
        span = _span()
        nv = m.num_variants
        try:
            sim = quiet(lambda: m.simulate(self._input(m), span))
            sim = sim[0] if isinstance(sim, tuple) else sim

            def cols(s):
                a = np.asarray(s.get_data(span), dtype=float)
                return byv([a[:, min(k, a.shape[1] - 1)].tolist() for k in range(nv)])
            out["sim"] = {n: cols(sim[n]) for n in m.lhs_names}
        except Exception as e:
            out["sim"] = "EXC:" + type(e).__name__
        # the same simulation with one LHS variable of a non-identity equation exogenized in one period: the
        # equation is inverted for its residual there (another compiled function than the plain simulation uses)
        try:
            ir = _irispie()
            nonid = m.nonidentity_index
            if nonid:
                name = m.lhs_names_in_equations[nonid[-1]]
                plan = ir.PlanSimulate(m, span)
                plan.exogenize(span[2], name)
                db = self._input(m)
                db[name][span[2]] = 1.2345
                simp = quiet(lambda: m.simulate(db, span, plan=plan))
                simp = simp[0] if isinstance(simp, tuple) else simp

                def colsp(s):
                    a = np.asarray(s.get_data(span), dtype=float)
                    return byv([a[:, min(k, a.shape[1] - 1)].tolist() for k in range(nv)])
                out["sim_exogenized"] = {n: colsp(simp[n]) for n in list(m.lhs_names) + ["res_" + name] if n in simp}
        except Exception as e:
            out["sim_exogenized"] = "EXC:" + type(e).__name__
        return out

    def read(self, m, tname, r):
        span = _span()
        if r["k"] == "simulate":
            quiet(lambda: m.simulate(self._input(m), span, execution_order=r.get("order", "dates_equations")))
        elif r["k"] == "view":
            m.get_variant(r.get("v", 0) % m.num_variants).get_parameters()
        else:
            m.get_parameters()
            m.incidence_matrix


class VarAdapter:
    cls = "var"
    spawn_kinds = ("copy", "pickle", "dill")
    file_kinds = ("save", "save_pickle", "save_dill")

    def build(self, tname):
        ir = _irispie()
        t = TEMPLATES[tname]
        return ir.RedVAR(list(t["names"]), order=t["order"], intercept=t["intercept"])

    @staticmethod
    def dataset(names, seed, n=48):
        ir = _irispie()
        rng = np.random.Generator(np.random.PCG64(int(seed)))
        db = ir.Databox()
        data = rng.normal(size=(n, len(names)))
        for j in range(1, n):
            data[j] += 0.5 * data[j - 1]
        for i, name in enumerate(names):
            db[name] = ir.Series(start=ir.qq(2000, 1), values=data[:, i].copy())
        return db

    def mutate(self, m, op):
        ir = _irispie()
        k = op["k"]
        if k == "estimate":
            names = list(m.get_endogenous_names())
            db = self.dataset(names, op["seed"])
            s = ir.qq(2000, 1) + m.order + op.get("skip", 0)
            quiet(lambda: m.estimate(db, s >> (ir.qq(2000, 1) + 40)))
        elif k == "alter":
            m.alter_num_variants(op["n"])
        elif k == "describe":
            m.set_description(op["s"])
        else:
            raise ValueError(k)
        return m

    def project_op(self, op, j):
        if op["k"] == "alter":
            return None
        return op

    def cheap(self, m):
        try:
            desc = m.get_description()
        except AttributeError:
            desc = "<never set>"     # RedVAR.get_description raises before the first set_description (outside C20)
        out = {"nv": m.num_variants, "desc": desc, "order": m.order,
               "names": list(m.get_endogenous_names())}
        sys_ = m.get_system_matrices(unpack_singleton=False)
        out["system"] = byv([{n: arr(getattr(s, n)) for n in ("A", "B", "c", "cov_residuals")} for s in sys_])
        out["fitted"] = byv([None if sy.A is None else list(np.asarray(sy.A).shape) for sy in sys_])
        return out

    def deep(self, m, tname, horizon=3):
        ir = _irispie()
        out = {}
        nv = m.num_variants
        try:
            out["mean"] = byv([arr(x) for x in m.get_mean(unpack_singleton=False)])
            out["eig"] = byv([[fl(e) for e in ev] for ev in m.get_eigenvalues(unpack_singleton=False)])
            out["acov"] = byv([[arr(x) for x in v] for v in m.get_acov(up_to_order=1, unpack_singleton=False)])
        except Exception as e:
            out["moments"] = "EXC:" + type(e).__name__
        try:
            names = list(m.get_endogenous_names())
            db = self.dataset(names, 7)
            span = (ir.qq(2000, 1) + 44) >> (ir.qq(2000, 1) + 50)
            sim = quiet(lambda: m.simulate(db, span))
            sim = sim[0] if isinstance(sim, tuple) else sim

            def cols(s):
                a = np.asarray(s.get_data(span), dtype=float)
                return byv([a[:, min(k, a.shape[1] - 1)].tolist() for k in range(nv)])
            out["sim"] = {n: cols(sim[n]) for n in names}
            # the same simulation in deviations from the mean and without the residuals of the data
            simd = quiet(lambda: m.simulate(db, span, deviation=True, residuals_from_data=False))
            simd = simd[0] if isinstance(simd, tuple) else simd
            out["sim_dev"] = {n: (lambda a: byv([a[:, min(k, a.shape[1] - 1)].tolist() for k in range(nv)]))(np.asarray(simd[n].get_data(span), dtype=float)) for n in names}
        except Exception as e:
            out["sim"] = "EXC:" + type(e).__name__
        return out

    def read(self, m, tname, r):
        if r["k"] == "view":
            m.get_variant(r.get("v", 0) % m.num_variants).get_mean()
            return
        if r["k"] == "simulate":
            ir = _irispie()
            db = self.dataset(list(m.get_endogenous_names()), 11)
            span = (ir.qq(2000, 1) + 44) >> (ir.qq(2000, 1) + 47)
            try:
                quiet(lambda: m.simulate(db, span, deviation=bool(r.get("deviation")), residuals_from_data=bool(r.get("ant"))))
            except Exception:
                pass
            return
        try:
            m.get_eigenvalues()
            m.get_stability()
            m.get_mean()
        except Exception:
            pass


ADAPTERS = {"sim": SimAdapter(), "seq": SeqAdapter(), "var": VarAdapter()}
