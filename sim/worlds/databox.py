"""
World `databox` (property C19): live databoxes that share Series objects, dataslate round trips, and
CSV export/import through a simulated file system with injected I/O faults, short reads/writes, crashes
and residue of earlier files.

Reference model: a heap `id(real Series) -> SeriesModel` (twins by object identity, so sharing between
boxes is represented exactly), per-box bindings derived from the real boxes after every verified step,
and per-path ExportRecords for completed exports.
"""

from __future__ import annotations

import collections
import math
import os
import warnings

import numpy as np

from ..kit import cal, simfs
from ..kit.core import World, Violation, HarnessError, canon, sha1, strip_traceback
from . import series_model as sm
from .series_model import SM, Exp
from .series import (P, freq_letter_of, nan_list, from_nan_list, snapshot, model_from_real, conforms,
                     VALUE_POOL, BASES, _lazy)

ir = None


def _irispie():
    global ir
    if ir is None:
        ir = _lazy()
    return ir


NAME_POOL = ("a", "b", "c", "x", "y", "gdp", "cpi", "a_1", "long_name_q", "a b", "c,d", "é", "Z", "k1", "k2")
# the last entry holds a line break (quoted by the csv writer); the ones before it hold characters that str.splitlines
# treats as line boundaries but a text file does not (LINE SEPARATOR, NEXT LINE, vertical tab, form feed): not quoted,
# they stay inside their cell
DESC_POOL = ("", "", "plain", "with, comma", 'quote " inside', "  spaces  ", "uni ✓", "semi;colon", "line\u2028sep", "next\x85line",
             "v\x0btab f\x0cfeed", "two\nlines")
PREDICATES = {
    "starts_a": lambda n: n.startswith("a"),
    "short": lambda n: len(n) <= 1,
    "none": lambda n: False,
    "all": lambda n: True,
    "has_k": lambda n: "k" in n,
}
RENAMERS = {
    "suffix": lambda n: n + "_x",
    "upper2": lambda n: n.upper() + "2",
    "prefix": lambda n: "p_" + n,
}

OP_WEIGHTS = {
    "new_box": 3, "drop_box": 1, "setitem": 8, "share": 4, "delitem": 2, "copy": 5, "shallow": 4, "rename": 4,
    "keep": 3, "remove": 3, "lay": 6, "clip": 4, "prepend": 3, "merge": 4, "or": 2, "item_op": 8, "apply": 3,
    "box_read": 4, "export": 12, "import": 10, "slate": 5, "slate_new": 4, "slate_to_box": 5, "slate_rescale": 3, "slate_copy": 2,
}
MUTATING = {"setitem", "share", "delitem", "rename", "keep", "remove", "lay", "clip", "prepend", "merge", "item_op", "apply", "export",
            "slate_rescale"}

FAULT_KINDS = ("open_enoent", "open_eacces", "open_emfile", "open_enospc", "write_enospc", "write_eio",
               "read_eio", "close_eio", "rename_eio", "crash")


def is_series(x):
    return isinstance(x, _irispie().Series)


def frozen(m: SM) -> SM:
    return m.copy()


def item_equal(a, b):
    if isinstance(a, float) and isinstance(b, float) and math.isnan(a) and math.isnan(b):
        return True
    return type(a) is type(b) and a == b


class _ExcNote(Exception):
    """What the harness remembers of an exception it does not hold itself (type name and text)."""

    def __init__(self, e):
        super().__init__(str(e))
        self.__class__ = type(type(e).__name__, (_ExcNote,), {})

    def __reduce__(self):
        return (Exception, (str(self),))


class ExportRecord:
    __slots__ = ("series", "description_row", "round", "complete", "seq", "consecutive", "delimiter")

    def __init__(self, series, description_row, rnd, seq, consecutive=True, delimiter=None):
        self.delimiter = delimiter       # None: the default comma
        self.series = series          # name -> (freq|None, nv, cells(rounded, restricted), desc)
        self.description_row = description_row
        self.round = rnd
        self.seq = seq
        self.consecutive = consecutive   # every period column is one consecutive ascending run


class DataboxWorld(World):
    PROPERTY = "C19"
    NAME = "databox"

    @classmethod
    def swarm(cls, rng, tier):
        freqs = rng.sample(list(cal.ALL_FREQS), rng.randint(1, 3))
        kinds = list(OP_WEIGHTS)
        disabled = [k for k in kinds if k not in ("new_box", "setitem", "export", "import") and rng.random() < 0.25]
        weights = {k: (0 if k in disabled else OP_WEIGHTS[k] * rng.choice([1, 1, 2, 3])) for k in kinds}
        faulty = rng.random() < 0.45
        enabled = [k for k in FAULT_KINDS if rng.random() < 0.5] if faulty else []
        mode = "sweep" if rng.random() < 0.10 else "random"
        if mode == "sweep":
            # single-fault sweep: one sampled workload (a databox and one export), re-run once per raw I/O index
            # with exactly one fault there, each followed by a read of the result and a clean re-export
            return {
                "world": cls.NAME, "mode": "sweep", "freqs": freqs, "bases": {f: BASES[f](rng) for f in freqs},
                "boxes": 2, "actors": 1, "paths": 1, "steps": 400, "nan_density": rng.choice([0.0, 0.2, 0.5]),
                "max_len": rng.choice([2, 5]), "max_nv": rng.choice([1, 2, 3]), "max_items": rng.choice([2, 4]),
                "fault_kinds": list(FAULT_KINDS), "p_fault": 0.0, "p_short": 0.0, "buffer": rng.choice([16, 64]),
                "newline_desc": rng.random() < 0.3, "weights": weights,
                "sweep": {"side": rng.choice(["write", "write", "read"]), "target_calls": rng.choice([8, 16, 30]),
                          "description_row": rng.random() < 0.5},
            }
        return {
            "world": cls.NAME, "mode": "random",
            "freqs": freqs,
            "bases": {f: BASES[f](rng) for f in freqs},
            "boxes": rng.randint(2, 4) if tier == "quick" else rng.randint(2, 6),
            "actors": rng.randint(1, 2) if tier == "quick" else rng.randint(1, 3),
            "paths": rng.randint(1, 3),
            "steps": rng.choice([15, 25, 40]) if tier == "quick" else rng.choice([15, 25, 40, 80, 120]),
            "nan_density": rng.choice([0.0, 0.1, 0.3, 0.5]), "inf_density": rng.choice([0.0, 0.0, 0.05, 0.1, 0.2]), "p_eintr": rng.choice([0.0, 0.0, 0.2, 0.5]),
            "max_len": rng.choice([2, 5, 9]) if tier == "quick" else rng.choice([2, 5, 9, 20]),
            "max_nv": rng.choice([1, 2, 3]) if tier == "quick" else rng.choice([1, 2, 3, 4]),
            "max_items": rng.choice([3, 5, 8]) if tier == "quick" else rng.choice([3, 5, 8, 12]),
            "fault_kinds": enabled,
            "p_fault": rng.choice([0.15, 0.3, 0.5]) if enabled else 0.0,
            "p_short": rng.choice([0.0, 0.3, 0.7]) if faulty else rng.choice([0.0, 0.2]),
            "buffer": rng.choice([16, 64, 8192]),
            "newline_desc": rng.random() < 0.15,
            "weights": weights,
        }

    def __init__(self, cfg, known=None):
        super().__init__(cfg, known)
        _irispie()
        self.fs = simfs.SimFS()
        simfs.install(self.fs)
        self._held = []        # exceptions of failed calls the caller has not let go yet
        self.boxes = {}        # handle -> real Databox
        self.owner = {}        # handle -> actor
        self.heap = {}         # id(series) -> (real series, SM)
        self.snaps = {}        # id(series) -> snapshot
        self.bind = {}         # handle -> {name: ("s", id) | ("v", value)}
        self.disk = {}         # path -> ExportRecord | "torn"
        self.slates = {}       # handle -> [real Dataslate, {name: (freq, nv, lo, array n x nv)}, owner]
        self.counter = 0
        self.seq = 0
        self.last_fault_seq = -1

    def close(self):
        # which OS routes the code under test took to the simulated disk (beyond plain open/read/write)
        for k, v in self.fs.os_calls.items():
            self.probes["oscall_" + k] += v
        simfs._CURRENT["fs"] = None

    # -- bookkeeping ------------------------------------------------------------------------------
    def _name(self, prefix="b"):
        self.counter += 1
        return f"{prefix}{self.counter}"

    def step_handles(self, step):
        a = step.get("args", {})
        hs = [a[k] for k in ("box", "other", "src_box", "d") if isinstance(a.get(k), str)]
        hs.extend(x for x in (a.get("others") or []) if isinstance(x, str))
        hs.extend(step.get("out", []) or [])
        return tuple(hs)

    def can_apply(self, step):
        outs = set(step.get("out", []) or [])
        a = step.get("args", {})
        for h in self.step_handles(step):
            if h not in outs and h not in self.boxes and h not in self.slates:
                return False
        op = step["op"]
        if op in ("item_op", "delitem") and a["name"] not in self.boxes[a["box"]]:
            return False
        if op == "share" and a["src_name"] not in self.boxes[a["src_box"]]:
            return False
        return True

    def unjudged(self, step):
        return step["op"] == "import" and self.disk.get(step["args"]["path"]) in (None, "torn")

    def retire(self, handles):
        for h in handles:
            self.slates.pop(h, None)
            self.boxes.pop(h, None)
            self.owner.pop(h, None)
            self.bind.pop(h, None)
        self._rederive()

    def _rederive(self):
        """Walk the real boxes and adopt the (verified) state: bindings, heap twins, snapshots."""
        heap, snaps, bind = {}, {}, {}
        for h, box in self.boxes.items():
            b = {}
            for name, v in box.items():
                if is_series(v):
                    i = id(v)
                    if i not in heap:
                        heap[i] = (v, model_from_real(v))
                        snaps[i] = snapshot(v)
                    b[name] = ("s", i)
                else:
                    b[name] = ("v", _freeze_value(v))
            bind[h] = b
        self.heap, self.snaps, self.bind = heap, snaps, bind

    def fingerprint(self):
        doc = {
            "boxes": {h: {n: (["s", self.heap[x[1]][1].dump()] if x[0] == "s" else ["v", repr(x[1])]) for n, x in sorted(b.items())}
                      for h, b in sorted(self.bind.items())},
            "disk": {p: ("torn" if r == "torn" else sorted(r.series)) for p, r in sorted(self.disk.items())},
            "files": {p: sha1(bytes(b)) for p, b in sorted(self.fs.files.items())},
        }
        return sha1(canon(doc))

    def abstract(self):
        out = []
        for h, b in self.bind.items():
            byf = {}
            nsc = nl = ne = 0
            for n, x in b.items():
                if x[0] == "s":
                    m = self.heap[x[1]][1]
                    if m.lo is None:
                        ne += 1
                    else:
                        byf[m.freq] = byf.get(m.freq, 0) + 1
                elif isinstance(x[1], tuple):
                    nl += 1
                else:
                    nsc += 1
            out.append((tuple(sorted(byf.items())), nsc, nl, ne))
        ids = {}
        for h, b in self.bind.items():
            for n, x in b.items():
                if x[0] == "s":
                    ids.setdefault(x[1], 0)
                    ids[x[1]] += 1
        share = tuple(sorted(ids.values(), reverse=True)[:6])
        disk = tuple(sorted(("torn" if r == "torn" else "complete") for r in self.disk.values()))
        return (sorted(out), share, disk)

    # -- value generation -------------------------------------------------------------------------
    def _rand_value(self, val):
        if val.random() < self.cfg["nan_density"]:
            return None
        r = val.random()
        if r < self.cfg.get("inf_density", 0.0):
            # infinite observations are values like any other: not missing, not to be filled, written and read as they are
            return float("inf") if val.random() < 0.5 else float("-inf")
        if r < 0.6:
            return val.choice(VALUE_POOL)
        if r < 0.8:
            return round(val.uniform(-1000, 1000), val.randint(0, 12))
        return val.uniform(-1e6, 1e6) * 10 ** val.randint(-12, 3)

    def _gen_series_spec(self, rng, val, freq=None):
        cfg = self.cfg
        f = freq or rng.choice(cfg["freqs"])
        nv = rng.randint(1, cfg["max_nv"])
        n = 0 if rng.random() < 0.12 else rng.randint(1, cfg["max_len"])
        start = cfg["bases"][f] + rng.randint(-4, 4)
        values = [[self._rand_value(val) for _ in range(nv)] for _ in range(n)]
        pool = DESC_POOL if cfg["newline_desc"] else DESC_POOL[:-1]
        return {"t": "series", "freq": f, "start": start, "nv": nv, "values": values, "desc": rng.choice(pool)}

    def _gen_item_spec(self, rng, val):
        r = rng.random()
        if r < 0.8:
            return self._gen_series_spec(rng, val)
        if r < 0.92:
            return {"t": "scalar", "v": val.choice(VALUE_POOL)}
        return {"t": "list", "v": [val.choice(VALUE_POOL) for _ in range(rng.randint(1, 3))]}

    def _make_item(self, spec):
        t = spec["t"]
        if t == "scalar":
            return spec["v"]
        if t == "list":
            return list(spec["v"])
        nv = spec["nv"]
        if not spec["values"]:
            return ir.Series(num_variants=nv, description=spec["desc"])
        vals = from_nan_list(spec["values"], nv)
        return ir.Series(num_variants=nv, start=P(spec["freq"], spec["start"]), values=vals, description=spec["desc"])

    # -- step generation --------------------------------------------------------------------------
    def gen_step(self, st):
        rng, val, sched, flt = st.get("ops"), st.get("values"), st.get("sched"), st.get("faults")
        cfg = self.cfg
        if cfg.get("mode") == "sweep":
            step = self._gen_sweep(rng, val, flt)
            if step is not None:
                step.setdefault("actor", "a0")
            return step
        actor = f"a{sched.randrange(cfg['actors'])}"
        pending = getattr(self, "_pending", None)
        if pending:
            step = pending.pop(0)
            if step["args"]["box"] in self.boxes:
                step["actor"] = self.owner[step["args"]["box"]]
                return step
        own = [h for h in self.boxes if self.owner[h] == actor]
        if not own or len(self.boxes) < 2:
            return self._gen_new_box(actor, rng, val, flt)
        w = cfg["weights"]
        kinds = [k for k in w if w[k] > 0]
        for _ in range(40):
            kind = rng.choices(kinds, weights=[w[k] for k in kinds])[0]
            if kind in ("new_box", "copy", "shallow", "or", "import", "slate") and len(self.boxes) >= cfg["boxes"] + 2:
                kind = "drop_box"
            step = getattr(self, "_gen_" + kind)(actor, rng, val, flt)
            if step is not None:
                step["actor"] = actor
                return step
        return self._gen_new_box(actor, rng, val, flt)

    # -- single-fault sweep -----------------------------------------------------------------------------
    def _gen_sweep(self, rng, val, flt):
        """
        State machine: build a box; export it fault-free (records the number of raw calls); then for every raw
        call index k: export with exactly one fault at k, read the path, re-export cleanly, read again.
        """
        sw = self.cfg["sweep"]
        stt = getattr(self, "_sweep_state", None)
        path = "/sim/p0.csv"
        clean_plan = {"buffer": self.cfg["buffer"], "short_write": None, "short_read": None, "faults": []}

        def export_step(plan):
            box = sorted(self.boxes)[0]
            return {"op": "export", "args": {"box": box, "path": path, "names": None, "span": None,
                                             "description_row": sw["description_row"], "round": 12, "nan_str": "", "plan": plan}}

        def import_step(plan):
            return {"op": "import", "out": [self._name()], "args": {"path": path, "description_row": sw["description_row"], "plan": plan}}
        if stt is None:
            self._sweep_state = stt = {"phase": "box", "k": 0, "kinds": None, "items": None, "sub": 0}
        # keep exactly one source box; imported boxes are dropped right away
        extra = [b for b in sorted(self.boxes) if b != stt.get("box")]
        if stt["phase"] != "box" and stt.get("box") in self.boxes and extra:
            return {"op": "drop_box", "args": {"box": extra[0]}}
        if stt["phase"] == "box" or stt.get("box") not in self.boxes:
            step = self._gen_new_box("a0", rng, val, flt) if stt["items"] is None else \
                {"op": "new_box", "actor": "a0", "out": [self._name()], "args": {"items": stt["items"]}}
            stt["items"] = step["args"]["items"]
            stt["box"] = step["out"][0]
            if stt["phase"] == "box":
                stt["phase"] = "probe"
            return step
        if stt["phase"] == "probe":
            stt["phase"] = "probe_read"
            return export_step(clean_plan)
        if stt["phase"] == "probe_read":
            # choose the chunk so that the export makes about target_calls raw writes / reads
            size = max(len(self.fs.files.get(path, b"")), 1)
            chunk = max(1, -(-size // sw["target_calls"]))
            stt["chunk"] = chunk
            stt["phase"] = "count"
            plan = dict(clean_plan)
            if sw["side"] == "write":
                plan["short_write"] = chunk
                return export_step(plan)
            plan["short_read"] = chunk
            return import_step(plan)
        if stt["phase"] == "count":
            n = self._last_counts["write" if sw["side"] == "write" else "read"]
            stt["n"] = min(n, 80)
            stt["phase"] = "sweep"
            stt["k"] = 0
            stt["sub"] = 0
            self.probes["sweep_workloads"] += 1
        if stt["phase"] == "sweep":
            if stt["k"] >= stt["n"]:
                stt["phase"] = "extra"
                stt["k"] = 0
            else:
                k, sub = stt["k"], stt["sub"]
                if sw["side"] == "write":
                    kinds = ["write_enospc", "write_eio", "crash"]
                    if sub == 0:
                        kind = kinds[k % 3] if k % 7 else "crash"
                        stt["sub"] = 1
                        keep = [0, 1, 5, 100000][k % 4]
                        self.probes["sweep_fault_points"] += 1
                        return export_step({"buffer": self.cfg["buffer"], "short_write": stt["chunk"], "short_read": None,
                                            "faults": [{"kind": kind, "at": k, "keep": keep}]})
                    if sub == 1:
                        stt["sub"] = 2
                        return import_step(clean_plan)
                    if sub == 2:
                        stt["sub"] = 3
                        return export_step(clean_plan)
                    stt["sub"] = 0
                    stt["k"] += 1
                    return import_step(clean_plan)
                else:
                    stt["k"] += 1
                    self.probes["sweep_fault_points"] += 1
                    return import_step({"buffer": self.cfg["buffer"], "short_write": None, "short_read": stt["chunk"],
                                        "faults": [{"kind": "read_eio", "at": k}]})
        if stt["phase"] == "extra":
            # faults that are not indexed by the data calls: every open of the operation, and the close
            seq = [("open_enoent", 0), ("open_eacces", 0), ("open_emfile", 0), ("open_enospc", 0), ("close_eio", 0),
                   ("open_eacces", 1), ("open_emfile", 2), ("close_eio", 1)]
            if stt["k"] >= 2 * len(seq):
                return None
            i, second = divmod(stt["k"], 2)
            stt["k"] += 1
            if second:
                return import_step(clean_plan)
            kind, at = seq[i]
            plan = {"buffer": self.cfg["buffer"], "short_write": None, "short_read": None, "faults": [{"kind": kind, "at": at}]}
            self.probes["sweep_fault_points"] += 1
            return export_step(plan) if sw["side"] == "write" and at == 0 else import_step(plan)
        return None

    def _own_box(self, rng, actor):
        own = sorted(h for h in self.boxes if self.owner[h] == actor)
        return rng.choice(own) if own else None

    def _any_box(self, rng, actor, exclude=None):
        c = sorted(h for h in self.boxes if h != exclude)
        return rng.choice(c) if c else None

    def _gen_new_box(self, actor, rng, val, flt):
        n = rng.randint(1, self.cfg["max_items"])
        names = rng.sample(NAME_POOL, min(n, len(NAME_POOL)))
        items = {nm: self._gen_item_spec(rng, val) for nm in names}
        return {"op": "new_box", "actor": actor, "out": [self._name()], "args": {"items": items}}

    def _gen_drop_box(self, actor, rng, val, flt):
        if self.slates and rng.random() < 0.25:
            return {"op": "drop_box", "args": {"box": rng.choice(sorted(self.slates))}}
        if len(self.boxes) <= 2:
            return None
        return {"op": "drop_box", "args": {"box": rng.choice(sorted(self.boxes))}}

    def _gen_setitem(self, actor, rng, val, flt):
        b = self._own_box(rng, actor)
        if b is None:
            return None
        return {"op": "setitem", "args": {"box": b, "name": rng.choice(NAME_POOL), "item": self._gen_item_spec(rng, val)}}

    def _gen_share(self, actor, rng, val, flt):
        b = self._own_box(rng, actor)
        src = self._any_box(rng, actor)
        if b is None or src is None or not self.bind[src]:
            return None
        sn = rng.choice(sorted(self.bind[src]))
        return {"op": "share", "args": {"box": b, "name": rng.choice(NAME_POOL), "src_box": src, "src_name": sn}}

    def _gen_delitem(self, actor, rng, val, flt):
        b = self._own_box(rng, actor)
        if b is None or not self.bind[b]:
            return None
        return {"op": "delitem", "args": {"box": b, "name": rng.choice(sorted(self.bind[b]))}}

    def _gen_selection(self, rng, names, allow_missing=True):
        """A name selection in one of the public forms."""
        names = sorted(names)
        r = rng.random()
        if r < 0.15:
            return {"k": "none"}
        if r < 0.3 and names:
            return {"k": "str", "v": rng.choice(names)}
        if r < 0.5:
            return {"k": "pred", "v": rng.choice(sorted(PREDICATES))}
        sel = rng.sample(names, rng.randint(0, len(names))) if names else []
        if allow_missing and rng.random() < 0.25:
            sel.insert(rng.randint(0, len(sel)), "missing_zz")
        return {"k": "list", "v": sel}

    @staticmethod
    def selection_real(sel):
        k = sel["k"]
        if k == "none":
            return None
        if k == "str":
            return sel["v"]
        if k == "pred":
            return PREDICATES[sel["v"]]
        return list(sel["v"])

    @staticmethod
    def selection_names(sel, context):
        """Source names a selection denotes, with non-strict semantics (unknown names are ignored)."""
        k = sel["k"]
        if k == "none":
            return list(context)
        if k == "str":
            return [sel["v"]] if sel["v"] in context else []
        if k == "pred":
            return [n for n in context if PREDICATES[sel["v"]](n)]
        return [n for n in sel["v"] if n in context]

    def _gen_copy(self, actor, rng, val, flt, op="copy"):
        b = self._any_box(rng, actor)
        if b is None:
            return None
        names = list(self.bind[b])
        sel = self._gen_selection(rng, names)
        src = self.selection_names(sel, names)
        tgt = None
        if rng.random() < 0.4 and sel["k"] != "pred":
            r = rng.random()
            if r < 0.5:
                tgt = {"k": "func", "v": rng.choice(sorted(RENAMERS))}
            elif sel["k"] in ("list", "str"):
                listed = sel["v"] if sel["k"] == "list" else [sel["v"]]
                tgt = {"k": "list", "v": [f"t{i}" for i in range(len(listed))]}
        return {"op": op, "out": [self._name()], "args": {"box": b, "source": sel, "target": tgt}}

    def _gen_shallow(self, actor, rng, val, flt):
        return self._gen_copy(actor, rng, val, flt, op="shallow")

    def _gen_rename(self, actor, rng, val, flt):
        b = self._own_box(rng, actor)
        if b is None or not self.bind[b]:
            return None
        names = sorted(self.bind[b])
        k = rng.randint(1, min(3, len(names)))
        src = rng.sample(names, k)
        if rng.random() < 0.3:
            fn = rng.choice(sorted(RENAMERS))
            tgt_names = [RENAMERS[fn](n) for n in src]
            tgt = {"k": "func", "v": fn}
        else:
            tgt_names = [f"r{self.seq}_{i}" for i in range(k)]
            tgt = {"k": "list", "v": tgt_names}
        # a target that is also a SOURCE (chains, swaps) depends on whether the rename is sequential or simultaneous:
        # unspecified, avoided.  A target that collides with an existing name which is NOT being renamed means the
        # same under both readings (the target ends up holding the source's item): generated below.
        if rng.random() < 0.3 and len(names) > k:
            victims = [n for n in names if n not in src]
            tgt_names = rng.sample(victims, min(k, len(victims))) + [f"r{self.seq}_{i}" for i in range(k)]
            tgt_names = tgt_names[:k]
            tgt = {"k": "list", "v": tgt_names}
        if set(tgt_names) & set(src) or len(set(tgt_names)) != len(tgt_names):
            return None
        source = {"k": "list", "v": src + (["missing_zz"] if rng.random() < 0.2 and tgt["k"] == "func" else [])}
        return {"op": "rename", "args": {"box": b, "source": source, "target": tgt}}

    def _gen_keep(self, actor, rng, val, flt, op="keep"):
        b = self._own_box(rng, actor)
        if b is None:
            return None
        sel = self._gen_selection(rng, list(self.bind[b]))
        return {"op": op, "args": {"box": b, "names": sel}}

    def _gen_remove(self, actor, rng, val, flt):
        return self._gen_keep(actor, rng, val, flt, op="remove")

    def _gen_lay(self, actor, rng, val, flt):
        b = self._own_box(rng, actor)
        o = self._any_box(rng, actor, exclude=b)
        if b is None or o is None:
            return None
        names = None
        if rng.random() < 0.4:
            both = sorted(set(self.bind[b]) | set(self.bind[o]))
            names = rng.sample(both, rng.randint(0, len(both))) if both else []
        return {"op": "lay", "args": {"box": b, "other": o, "which": rng.choice(["overlay", "underlay"]), "names": names}}

    def _gen_clip(self, actor, rng, val, flt):
        b = self._own_box(rng, actor)
        if b is None:
            return None
        f = rng.choice(self.cfg["freqs"])
        a = self.cfg["bases"][f] + rng.randint(-5, 5)
        bb = a + rng.randint(0, 6)
        r = rng.random()
        return {"op": "clip", "args": {"box": b, "freq": f, "a": None if r < 0.15 else a, "b": None if 0.15 <= r < 0.3 else bb}}

    def _gen_prepend(self, actor, rng, val, flt):
        b = self._own_box(rng, actor)
        o = self._any_box(rng, actor, exclude=b)
        if b is None or o is None:
            return None
        f = rng.choice(self.cfg["freqs"])
        return {"op": "prepend", "args": {"box": b, "other": o, "freq": f, "end": self.cfg["bases"][f] + rng.randint(-4, 5)}}

    def _gen_merge(self, actor, rng, val, flt):
        by = rng.random() < 0.2
        b = None if by else self._own_box(rng, actor)
        if not by and b is None:
            return None
        others = []
        for _ in range(rng.choice([1, 1, 1, 2, 2, 3])):
            o = self._any_box(rng, actor, exclude=b)
            if o is not None and o not in others:
                others.append(o)
        if not others:
            return None
        how = rng.choice(["single", "single", "list", "tuple", "generator", "map"]) if len(others) == 1 else \
            rng.choice(["list", "tuple", "generator", "map"])
        if by and how == "single":
            how = "list"
        strategy = rng.choice(["stack", "stack", "replace", "discard", "silent", "warning", "error", "critical"])
        step = {"op": "merge", "args": {"box": b, "others": others, "how": how, "strategy": strategy}}
        if by:
            step["out"] = [self._name()]
        return step

    def _gen_apply(self, actor, rng, val, flt):
        b = self._own_box(rng, actor)
        if b is None:
            return None
        sel = self._gen_selection(rng, list(self.bind[b]))
        return {"op": "apply", "args": {"box": b, "source": sel, "fn": rng.choice(["shift_in_place", "plus_one"]), "by": rng.choice([-2, -1, 1, 3]),
                                        "when_fails": rng.choice(["critical", "error", "warning", "silent"])}}

    def _gen_or(self, actor, rng, val, flt):
        b = self._any_box(rng, actor)
        o = self._any_box(rng, actor, exclude=b)
        if b is None or o is None:
            return None
        return {"op": "or", "out": [self._name()], "args": {"box": b, "other": o}}

    def _gen_box_read(self, actor, rng, val, flt):
        b = self._any_box(rng, actor)
        if b is None:
            return None
        names = sorted(self.bind[b])
        probe = rng.sample(names, min(len(names), rng.randint(0, 3))) + (["missing_zz"] if rng.random() < 0.4 else [])
        return {"op": "box_read", "args": {"box": b, "probe": probe, "freq": rng.choice(list(cal.ALL_FREQS)),
                                           "pred": rng.choice(sorted(PREDICATES))}}

    def _gen_item_op(self, actor, rng, val, flt):
        b = self._any_box(rng, actor)
        if b is None:
            return None
        ser = sorted(n for n, x in self.bind[b].items() if x[0] == "s")
        if not ser:
            return None
        n = rng.choice(ser)
        m = self.heap[self.bind[b][n][1]][1]
        f = m.freq if m.lo is not None else rng.choice(self.cfg["freqs"])
        t = (m.lo if m.lo is not None else self.cfg["bases"][f]) + rng.randint(-3, max(m.n, 1) + 2)
        kind = rng.choice(["set", "set", "shift", "clip", "abs", "nvar", "describe", "replace_where", "replace_where"])
        args = {"box": b, "name": n, "kind": kind, "freq": f, "t": t, "v": self._rand_value(val),
                "by": rng.choice([-2, -1, 1, 2]), "n": rng.randint(0, 4), "num": rng.randint(1, 3),
                "desc": rng.choice(DESC_POOL[:-1])}
        return {"op": "item_op", "args": args}

    def _gen_fault_plan(self, flt, reading=False):
        cfg = self.cfg
        plan = {"buffer": cfg["buffer"], "short_write": None, "short_read": None, "faults": []}
        if flt.random() < cfg["p_short"]:
            plan["short_write"] = flt.choice([1, 3, 7, 20])
        if flt.random() < cfg["p_short"]:
            plan["short_read"] = flt.choice([1, 2, 5, 13])
        if flt.random() < cfg.get("p_eintr", 0.0):
            plan["eintr"] = flt.choice([1, 2, 3, 7])      # every n-th raw read/write is interrupted once before it transfers anything
        if cfg["fault_kinds"] and flt.random() < cfg["p_fault"]:
            if reading:
                kinds = [k for k in cfg["fault_kinds"] if k.startswith("open") or k in ("read_eio", "close_eio")]
            else:
                kinds = [k for k in cfg["fault_kinds"] if k.startswith("open") or k in ("write_enospc", "write_eio", "close_eio", "rename_eio", "crash")]
            if kinds:
                kind = flt.choice(sorted(kinds))
                hi = 3 if kind.startswith("open") or kind == "close_eio" else (40 if plan["short_write"] or plan["short_read"] else 4)
                at = 0 if flt.random() < 0.3 else flt.randint(0, hi)
                fault = {"kind": kind, "at": at}
                if kind in ("write_enospc", "write_eio", "crash"):
                    fault["keep"] = flt.choice([0, 0, 1, 5, 100000])
                plan["faults"].append(fault)
        return plan

    def _gen_path(self, rng):
        return f"/sim/p{rng.randrange(self.cfg['paths'])}.csv"

    def _gen_export(self, actor, rng, val, flt):
        b = self._own_box(rng, actor)
        if b is None:
            return None
        names = None
        if rng.random() < 0.3:
            allnames = sorted(self.bind[b])
            names = rng.sample(allnames, rng.randint(0, len(allnames))) if allnames else []
            if rng.random() < 0.2:
                names.append("missing_zz")
        span = None
        r = rng.random()
        if r < 0.25:
            f = rng.choice(self.cfg["freqs"])
            a = self.cfg["bases"][f] + rng.randint(-5, 5)
            span = {"k": "span", "freq": f, "a": a, "b": a + rng.randint(0, 8)}
            q = rng.random()
            if q < 0.2:
                span["step"] = rng.choice([2, 3])          # every other / every third period
            elif q < 0.35:
                span["a"], span["b"], span["step"] = span["b"], span["a"], -1      # descending
            elif q < 0.45:
                n = span["b"] - span["a"] + 1
                span = {"k": "periods", "freq": f, "ts": sorted(rng.sample(range(span["a"], span["b"] + 1), rng.randint(1, n)), reverse=rng.random() < 0.3)}
        elif r < 0.35:
            fs_ = {}
            for f in self.cfg["freqs"]:
                q = rng.random()
                if q < 0.4:
                    fs_[f] = "all"
                elif q < 0.8:
                    a = self.cfg["bases"][f] + rng.randint(-5, 5)
                    fs_[f] = [a, a + rng.randint(0, 8)]
            if fs_:
                span = {"k": "fspan", "v": fs_}
        args = {"box": b, "path": self._gen_path(rng), "names": names, "span": span,
                "description_row": rng.random() < 0.5, "round": rng.choice([12, 12, None, 2, 6]),
                "nan_str": rng.choice(["", "", "nan", "NaN"]), "plan": self._gen_fault_plan(flt)}
        if rng.random() < 0.2:
            args["pathlike"] = True
        if rng.random() < 0.08:
            # the caller's own date formatter fails on the k-th period it is shown: an export that dies in the middle
            # without any I/O error
            args["formatter_fails_at"] = rng.choice([0, 1, 2, 4])
        if (args["plan"]["faults"] or "formatter_fails_at" in args) and rng.random() < 0.5:
            args["hold_exception"] = True
            if rng.random() < 0.6:
                # ... and the caller tries again at once, still inside its `except` block: a clean export to the same path
                self._pending = [{"op": "export", "args": {"box": b, "path": args["path"], "names": None, "span": None,
                                                           "description_row": args["description_row"], "round": 12, "nan_str": "",
                                                           "plan": {"buffer": self.cfg["buffer"], "short_write": None, "short_read": None, "faults": []}}}]
        if rng.random() < 0.15:
            # another column delimiter, given to the writer and later to the reader of the same file
            args["delimiter"] = rng.choice([";", "\t", "|"])
        if rng.random() < 0.15:
            # a documented pass-through to the csv writer: quote whatever is not a number (the numbers must stay numbers)
            args["quoting"] = "nonnumeric"
        if rng.random() < 0.12:
            # a selection that leaves nothing to export, now and then asked to be an error: such an export is
            # rejected before anything is written, so what an earlier export left under the same path stays
            args["names"] = sorted(n for n, x in self.bind[b].items() if x[0] != "s")[:2] + (["missing_zz"] if rng.random() < 0.5 else [])
            args["when_empty"] = rng.choice(["error", "error", "silent", "warning"])
            if self.disk and rng.random() < 0.7:
                args["path"] = rng.choice(sorted(self.disk))
        return {"op": "export", "args": args}

    def _gen_import(self, actor, rng, val, flt):
        paths = sorted(self.disk)
        if not paths:
            return None
        path = rng.choice(paths)
        rec = self.disk[path]
        dr = rec.description_row if rec != "torn" else rng.random() < 0.5
        return {"op": "import", "out": [self._name()], "args": {"path": path, "description_row": dr,
                                                               "start_period_only": rng.random() < 0.2,
                                                               "pathlike": rng.random() < 0.2,
                                                               "name_transform": "upper" if rng.random() < 0.15 else None,
                                                               "plan": self._gen_fault_plan(flt, reading=True)}}

    def _gen_slate(self, actor, rng, val, flt):
        b = self._any_box(rng, actor)
        if b is None:
            return None
        f = rng.choice(self.cfg["freqs"])
        bind = self.bind[b]
        ok = []
        for n, x in bind.items():
            if x[0] == "v":
                ok.append(n)
            else:
                m = self.heap[x[1]][1]
                if m.lo is None or m.freq == f:
                    ok.append(n)
        ok.sort()
        names = rng.sample(ok, rng.randint(0, len(ok))) if ok else []
        if rng.random() < 0.2:
            names.append("absent_name")
        if not names:
            return None
        a = self.cfg["bases"][f] + rng.randint(-5, 5)
        n = rng.randint(1, 7)
        nv = rng.randint(1, 3)

        def vals(overwrite=False):
            out = {}
            for nm in names:
                if rng.random() < 0.3:
                    out[nm] = val.choice(VALUE_POOL) if rng.random() < 0.7 else [val.choice(VALUE_POOL) for _ in range(rng.randint(1, 3))]
                    if overwrite and rng.random() < 0.35:
                        # an overwrite replaces the whole row, missing values included: a missing scalar, or a series that
                        # covers only part of the span (what it leaves missing stays missing - fallbacks do not come back)
                        if rng.random() < 0.4:
                            out[nm] = "nan"
                        else:
                            k = rng.randint(1, 2)
                            out[nm] = {"series": {"start": a + rng.randint(-2, n - 1), "nv": k,
                                                  "values": [[self._rand_value(val) for _ in range(k)] for _ in range(rng.randint(1, 3))]}}
            # declared in an order of its own, not in the order of the requested names
            keys = list(out)
            rng.shuffle(keys)
            return {k: out[k] for k in keys} or None
        fb = vals() if rng.random() < 0.4 else None
        ow = vals(True) if rng.random() < 0.3 else None
        if fb and rng.random() < 0.5:
            # both declared for one name: the fallback fills first, the overwrite has the last word
            nm = rng.choice(sorted(fb))
            ow = dict(ow or {})
            ow.setdefault(nm, "nan" if rng.random() < 0.5 else val.choice(VALUE_POOL))
        return {"op": "slate", "out": [self._name()], "args": {
            "box": b, "names": names, "freq": f, "a": a, "n": n, "num_variants": nv,
            "fallbacks": fb, "overwrites": ow}}

    def _gen_slate_new(self, actor, rng, val, flt):
        if len(self.slates) >= 2:
            return None
        step = self._gen_slate(actor, rng, val, flt)
        if step is None:
            return None
        step["op"] = "slate_new"
        step["out"] = [self._name("d")]
        if rng.random() < 0.5:
            step["args"]["num_variants"] = 1
        return step

    def _pick_slate(self, rng):
        c = sorted(self.slates)
        return rng.choice(c) if c else None

    def _gen_slate_to_box(self, actor, rng, val, flt):
        d = self._pick_slate(rng)
        if d is None:
            return None
        r = rng.random()
        opts = {}
        if rng.random() < 0.3:
            opts["trim"] = False
        if rng.random() < 0.2:
            opts["span"] = "full"
        if r < 0.5:
            return {"op": "slate_to_box", "out": [self._name()], "args": {"d": d, "target": None, "opts": opts}}
        if r < 0.75:
            return {"op": "slate_to_box", "out": [self._name()], "args": {"d": d, "target": "empty", "opts": opts}}
        b = self._own_box(rng, actor)
        if b is None:
            return None
        return {"op": "slate_to_box", "args": {"d": d, "target": b, "opts": opts}}

    def _gen_slate_rescale(self, actor, rng, val, flt):
        d = self._pick_slate(rng)
        if d is None:
            return None
        return {"op": "slate_rescale", "args": {"d": d, "factor": rng.choice([2.0, 0.5, -1.0, 10.0])}}

    def _gen_slate_copy(self, actor, rng, val, flt):
        d = self._pick_slate(rng)
        if d is None or len(self.slates) >= 3:
            return None
        return {"op": "slate_copy", "out": [self._name("d")], "args": {"d": d, "how": rng.choice(["copy", "copy", "nan_copy"])}}

    # -- application ------------------------------------------------------------------------------
    def _apply(self, step):
        op = step["op"]
        self.seq = step.get("seq", self.seq + 1)
        self.stats["op." + op] += 1
        if op in MUTATING:
            self.mutating_steps += 1
        if self._held and op != "export":
            self._release_held()
        with warnings.catch_warnings():
            warnings.simplefilter("ignore")
            with np.errstate(all="ignore"):
                out = getattr(self, "_do_" + op)(step, step["args"])
        self.max_live = max(self.max_live, len(self.boxes))
        self.stats["outcome." + out.split(":")[0]] += 1
        return out

    def _release_held(self):
        """The caller finally lets go of the exceptions it kept: frames die, and with them whatever they still held open."""
        import gc
        for e in self._held:
            strip_traceback(e)
        self._held.clear()
        gc.collect()
        self.probes["kept_exceptions_released"] += 1

    # oracle pieces -----------------------------------------------------------------------------
    def _check_heap(self, opname, pred, mutable=None):
        """Every heap object not declared mutable is byte-identical; declared ones conform to their Exp."""
        mutable = mutable or {}
        exempt = getattr(self, "_exempt", set())
        for i, (real, m) in self.heap.items():
            if i in exempt and i not in mutable:
                continue
            if i in mutable:
                bad = conforms(real, mutable[i], f"{opname} series")
                if bad:
                    raise Violation(bad[0], opname, pred, "", bad[1])
                # values of the selected series change; its description is not what the operation addresses
                want_desc = mutable[i].desc if mutable[i].desc is not None else m.desc
                if real.get_description() != want_desc:
                    raise Violation("isolation", opname, pred, "", f"description of a selected series changed from {want_desc!r} to {real.get_description()!r}")
                continue
            now = snapshot(real)
            if now != self.snaps[i]:
                what = [label for label, x, y in zip(("start", "shape", "dtype", "data", "description", "metadata"), self.snaps[i], now) if x != y]
                owners = sorted({f"{h}[{n!r}]" for h, b in self.bind.items() for n, x in b.items() if x == ("s", i)})
                raise Violation("isolation", opname, pred, "", f"series {owners} is not selected by the operation but changed: {'/'.join(what)}")

    def _check_bindings_unchanged(self, opname, pred, exclude=()):
        if self.slates and not opname.startswith("slate_"):
            self._check_slates(opname)
        for h, box in self.boxes.items():
            if h in exclude:
                continue
            want = self.bind[h]
            if set(box.keys()) != set(want):
                raise Violation("isolation", opname, pred, "", f"keys of databox {h} (not the receiver) changed: {sorted(set(box.keys()) ^ set(want))}")
            for n, x in want.items():
                v = box[n]
                if x[0] == "s":
                    if not is_series(v) or id(v) != x[1]:
                        raise Violation("isolation", opname, pred, "", f"item {n!r} of databox {h} (not the receiver) was rebound")
                elif _freeze_value(v) != x[1] and not item_equal(_freeze_value(v), x[1]):
                    raise Violation("isolation", opname, pred, "", f"item {n!r} of databox {h} (not the receiver) changed value")

    def _expect_box(self, opname, pred, box, want, fresh_from=None, what="result"):
        """
        want: name -> ("s", Exp, constraint) | ("v", value)
          constraint: ("same", id) the very object; "fresh": an object unknown to the heap that shares no buffer
                      with any heap object; "any": unspecified by the property (adopted)
        """
        if set(box.keys()) != set(want):
            extra = sorted(set(box.keys()) - set(want))
            miss = sorted(set(want) - set(box.keys()))
            raise Violation("refine", opname, pred, "", f"{what} databox has wrong names: unexpected {extra}, missing {miss}")
        for n, w in want.items():
            v = box[n]
            if w[0] == "v":
                if is_series(v) or not (item_equal(_freeze_value(v), w[1]) or _freeze_value(v) == w[1]):
                    raise Violation("refine", opname, pred, "", f"{what} item {n!r} is {v!r}, expected {w[1]!r}")
                continue
            if not is_series(v):
                raise Violation("refine", opname, pred, "", f"{what} item {n!r} is not a Series")
            bad = conforms(v, w[1], f"{opname} {what} item {n!r}")
            if bad:
                raise Violation(bad[0], opname, pred, "", bad[1])
            if w[1].desc is not None and v.get_description() != w[1].desc:
                raise Violation("refine", opname, pred, "", f"{what} item {n!r} has description {v.get_description()!r}, expected {w[1].desc!r}")
            c = w[2]
            if isinstance(c, tuple) and c[0] == "same":
                if id(v) != c[1]:
                    self.probes["shared_binding_was_copied"] += 1
            elif c == "fresh":
                if id(v) in self.heap:
                    raise Violation("alias", opname, pred, "", f"{what} item {n!r} is the same object as an item of an existing databox")
                for i, (real, _) in self.heap.items():
                    if np.shares_memory(real.data, v.data):
                        raise Violation("alias", opname, pred, "", f"{what} item {n!r} shares its data buffer with an item of an existing databox")

    def _value_exp(self, x, fresh=True, desc=True):
        """Expectation for an item equal to binding x."""
        if x[0] == "v":
            return ("v", x[1])
        m = self.heap[x[1]][1]
        return ("s", Exp(m.freq, m.nv, m.cells, desc=m.desc if desc else None), "fresh" if fresh else ("same", x[1]))

    def _run(self, opname, pred, thunk, *, must_hold=True, plan=None, hold=False):
        """Execute with the fault plan; returns (status, result|exception). status: ok | raised | crashed
        hold: the caller keeps the exception of a failed call (traceback and all) for a while, as an `except` block that
        goes on working does: whatever the failed call left open stays open until the exception is let go"""
        self.fs.begin_step(plan)
        status = "crashed"
        try:
            try:
                r = thunk()
                status = "ok"
            except simfs.SimCrash as e:
                strip_traceback(e)
                r, status = e, "crashed"
            except Exception as e:
                if isinstance(e, (Violation, HarnessError)):
                    raise
                if hold:
                    self._held.append(e)
                    self.probes["exception_of_failed_call_kept_alive"] += 1
                    r, status = _ExcNote(e), "raised"
                else:
                    strip_traceback(e)
                    r, status = e, "raised"
        finally:
            self._last_counts = dict(self.fs.counts)
            fired = self.fs.end_step(crashed=(status == "crashed"))
        for k in fired:
            self.faults_fired[k] += 1
        if fired:
            self.last_fault_seq = self.seq
        return status, r, fired

    # -- operations -------------------------------------------------------------------------------
    def _do_new_box(self, step, a):
        box = ir.Databox()
        want = {}
        for n, spec in a["items"].items():
            item = self._make_item(spec)
            box[n] = item
            if spec["t"] == "series":
                m = sm.from_array(spec["freq"], spec["nv"], spec["start"], from_nan_list(spec["values"], spec["nv"])) if spec["values"] else SM(None, spec["nv"])
                want[n] = ("s", Exp(m.freq, m.nv, m.cells, tight=True, desc=spec["desc"]), "any")
            else:
                want[n] = ("v", _freeze_value(item))
        self._expect_box("new_box", "", box, want, what="new")
        self._check_heap("new_box", "")
        self._check_bindings_unchanged("new_box", "")
        h = step["out"][0]
        self.boxes[h] = box
        self.owner[h] = step.get("actor", "a0")
        self._rederive()
        return "ok"

    def _do_drop_box(self, step, a):
        self.retire((a["box"],))
        return "ok"

    def _crash_guard(self, opname, pred, status, r):
        if status == "raised":
            raise Violation("crash", opname, pred, type(r).__name__, f"{type(r).__name__}: {str(r)[:160]}")

    def _do_setitem(self, step, a):
        h = a["box"]
        box = self.boxes[h]
        item = self._make_item(a["item"])
        status, r, _ = self._run("setitem", "", lambda: box.__setitem__(a["name"], item))
        self._crash_guard("setitem", "", status, r)
        want = {n: self._value_exp(x, fresh=False) for n, x in self.bind[h].items()}
        if is_series(item):
            m = model_from_real(item)
            want[a["name"]] = ("s", Exp(m.freq, m.nv, m.cells, desc=a["item"]["desc"]), "any")
        else:
            want[a["name"]] = ("v", _freeze_value(item))
        self._expect_box("setitem", "", box, want, what="receiver")
        self._check_heap("setitem", "")
        self._check_bindings_unchanged("setitem", "", exclude=(h,))
        self._rederive()
        return "ok"

    def _do_share(self, step, a):
        h = a["box"]
        box = self.boxes[h]
        src = self.boxes[a["src_box"]]
        obj = src[a["src_name"]]
        status, r, _ = self._run("share", "", lambda: box.__setitem__(a["name"], obj))
        self._crash_guard("share", "", status, r)
        want = {n: self._value_exp(x, fresh=False) for n, x in self.bind[h].items()}
        want[a["name"]] = self._value_exp(self.bind[a["src_box"]][a["src_name"]], fresh=False)
        self._expect_box("share", "", box, want, what="receiver")
        self._check_heap("share", "")
        self._check_bindings_unchanged("share", "", exclude=(h,))
        self._rederive()
        self.probes["series_shared_between_boxes"] += 1
        return "ok"

    def _do_delitem(self, step, a):
        h = a["box"]
        box = self.boxes[h]
        status, r, _ = self._run("delitem", "", lambda: box.__delitem__(a["name"]))
        self._crash_guard("delitem", "", status, r)
        want = {n: self._value_exp(x, fresh=False) for n, x in self.bind[h].items() if n != a["name"]}
        self._expect_box("delitem", "", box, want, what="receiver")
        self._check_heap("delitem", "")
        self._check_bindings_unchanged("delitem", "", exclude=(h,))
        self._rederive()
        return "ok"

    def _resolve_targets(self, sel, tgt, context):
        src = self.selection_names(sel, context)
        if tgt is None:
            return src, list(src)
        if tgt["k"] == "func":
            return src, [RENAMERS[tgt["v"]](n) for n in src]
        # positional target list pairs with the *listed* sources (unknown ones dropped with their partner)
        listed = sel["v"] if sel["k"] == "list" else ([sel["v"]] if sel["k"] == "str" else list(context))
        pairs = [(s, t) for s, t in zip(listed, tgt["v"]) if s in context]
        return [s for s, _ in pairs], [t for _, t in pairs]

    @staticmethod
    def target_real(tgt):
        if tgt is None:
            return None
        if tgt["k"] == "func":
            return RENAMERS[tgt["v"]]
        return list(tgt["v"])

    def _do_copy(self, step, a, op="copy"):
        h = a["box"]
        box = self.boxes[h]
        context = list(self.bind[h])
        src, tgt = self._resolve_targets(a["source"], a["target"], context)
        pred = f"source:{a['source']['k']},target:{a['target']['k'] if a['target'] else 'none'}"
        if len(set(tgt)) != len(tgt):
            return "skipped"
        if any(t in context and t != s_ for s_, t in zip(src, tgt)):
            return "skipped"     # target collides with another existing name: sequential-rename corner, unspecified
        sreal, treal = self.selection_real(a["source"]), self.target_real(a["target"])
        if a["source"]["k"] == "pred":
            self.probes["selection_by_predicate"] += 1
            if not src:
                self.probes["predicate_selects_nothing"] += 1
        if a["target"] and a["target"]["k"] == "func":
            self.probes["renaming_function"] += 1
        status, r, _ = self._run(op, pred, lambda: getattr(box, op)(sreal, treal))
        self._crash_guard(op, pred, status, r)
        if not isinstance(r, ir.Databox):
            raise Violation("refine", op, pred, "", f"{op} returned {type(r).__name__}")
        fresh = op == "copy"
        want = {t: self._value_exp(self.bind[h][s], fresh=fresh) for s, t in zip(src, tgt)}
        self._expect_box(op, pred, r, want, what="result")
        if op == "shallow":
            for s, t in zip(src, tgt):
                x = self.bind[h][s]
                if x[0] == "s" and id(r[t]) == x[1]:
                    self.probes["shallow_shares_object"] += 1
        self._check_heap(op, pred)
        self._check_bindings_unchanged(op, pred)
        out = step["out"][0]
        self.boxes[out] = r
        self.owner[out] = step.get("actor", "a0")
        self._rederive()
        return "ok"

    def _do_shallow(self, step, a):
        return self._do_copy(step, a, op="shallow")

    def _do_rename(self, step, a):
        h = a["box"]
        box = self.boxes[h]
        context = list(self.bind[h])
        src, tgt = self._resolve_targets(a["source"], a["target"], context)
        pred = f"target:{a['target']['k']}"
        if len(set(tgt)) != len(tgt) or set(tgt) & set(src):
            return "skipped"
        collide = set(tgt) & (set(context) - set(src))
        if collide:
            pred += ",target_replaces_existing_item"
            self.probes["rename_onto_existing_name"] += 1
        status, r, _ = self._run("rename", pred, lambda: box.rename(self.selection_real(a["source"]), self.target_real(a["target"])))
        self._crash_guard("rename", pred, status, r)
        ren = dict(zip(src, tgt))
        want = {n: self._value_exp(x, fresh=False) for n, x in self.bind[h].items() if n not in collide and n not in ren}
        for s_, t_ in ren.items():
            want[t_] = self._value_exp(self.bind[h][s_], fresh=False)
        self._expect_box("rename", pred, box, want, what="receiver")
        self._check_heap("rename", pred)
        self._check_bindings_unchanged("rename", pred, exclude=(h,))
        self._rederive()
        return "ok"

    def _do_keep(self, step, a, op="keep"):
        h = a["box"]
        box = self.boxes[h]
        context = list(self.bind[h])
        sel = a["names"]
        pred = f"names:{sel['k']}"
        chosen = set(self.selection_names(sel, context))
        status, r, _ = self._run(op, pred, lambda: getattr(box, op)(self.selection_real(sel)))
        self._crash_guard(op, pred, status, r)
        if sel["k"] == "none":
            keep = set(context)
        elif op == "keep":
            keep = chosen
        else:
            keep = set(context) - chosen
        want = {n: self._value_exp(x, fresh=False) for n, x in self.bind[h].items() if n in keep}
        self._expect_box(op, pred, box, want, what="receiver")
        self._check_heap(op, pred)
        self._check_bindings_unchanged(op, pred, exclude=(h,))
        self._rederive()
        return "ok"

    def _do_remove(self, step, a):
        return self._do_keep(step, a, op="remove")

    def _layable(self, h, o, names):
        """Names on which Databox.overlay/underlay act: series in both boxes, receiver's non-empty, same frequency."""
        bs, bo = self.bind[h], self.bind[o]
        cand = set(n for n in bs if bs[n][0] == "s") & set(n for n in bo if bo[n][0] == "s")
        if names is not None:
            cand &= set(names)
        out = []
        self._lay_unspecified = set()
        for n in sorted(cand):
            ms, mo = self.heap[bs[n][1]][1], self.heap[bo[n][1]][1]
            if ms.lo is None or mo.lo is None or ms.freq != mo.freq:
                # unspecified corner (the implementation skips receiver items of unknown frequency and pairs of
                # different frequencies; filling an empty receiver would be just as defensible): adopted, not judged
                if not (ms.lo is None and mo.lo is None):
                    self._lay_unspecified.add(bs[n][1])
                continue
            if not (ms.nv == mo.nv or ms.nv == 1 or mo.nv == 1):
                return None
            if bs[n][1] == bo[n][1]:
                return None         # the same object on both sides: laying a series over itself, not generated
            out.append(n)
        return out

    def _do_lay(self, step, a):
        h, o = a["box"], a["other"]
        box, other = self.boxes[h], self.boxes[o]
        which = a["which"]
        names = a["names"]
        if names is not None:
            # names that are not series in both boxes raise in the implementation (unspecified): not judged
            bs, bo = self.bind[h], self.bind[o]
            for n in names:
                if n in bs and n in bo and (bs[n][0] != "s" or bo[n][0] != "s"):
                    return "skipped"
        act = self._layable(h, o, names)
        if act is None:
            return "skipped"
        opname = "box." + which
        pred = "names:" + ("none" if names is None else "list")
        # a receiver object bound under two acted-on names would be laid twice: order-dependent, not generated
        ids = [self.bind[h][n][1] for n in act]
        if len(set(ids)) != len(ids):
            return "skipped"
        mutable = {}
        for n in act:
            ms, mo = self.heap[self.bind[h][n][1]][1], self.heap[self.bind[o][n][1]][1]
            e = (sm.t_overlay if which == "overlay" else sm.t_underlay)(ms, mo)
            mutable[self.bind[h][n][1]] = e
        other_ids = {self.bind[o][n][1] for n in act}
        if other_ids & set(mutable):
            return "skipped"
        kw = {} if names is None else {"names": list(names)}
        status, r, _ = self._run(opname, pred, lambda: getattr(box, which)(other, **kw))
        self._crash_guard(opname, pred, status, r)
        self._exempt = set(self._lay_unspecified) - other_ids
        try:
            self._check_heap(opname, pred, mutable)
        finally:
            self._exempt = set()
        self._check_bindings_unchanged(opname, pred)
        if any(sum(1 for hh, b in self.bind.items() for nn, x in b.items() if x == ("s", i)) > 1 for i in mutable):
            self.probes["shared_series_mutated_through_one_box"] += 1
        self._rederive()
        return "ok"

    def _do_clip(self, step, a):
        h = a["box"]
        box = self.boxes[h]
        f = a["freq"]
        pa = P(f, a["a"]) if a["a"] is not None else None
        pb = P(f, a["b"]) if a["b"] is not None else None
        mutable = {}
        if pa is not None or pb is not None:
            for n, x in self.bind[h].items():
                if x[0] != "s":
                    continue
                m = self.heap[x[1]][1]
                if m.lo is not None and m.freq == f:
                    mutable[x[1]] = sm.t_clip(m, a["a"], a["b"])
        status, r, _ = self._run("box.clip", "", lambda: box.clip(pa, pb))
        self._crash_guard("box.clip", "", status, r)
        self._check_heap("box.clip", "", mutable)
        self._check_bindings_unchanged("box.clip", "")
        self._rederive()
        return "ok"

    def _do_prepend(self, step, a):
        h, o = a["box"], a["other"]
        box, other = self.boxes[h], self.boxes[o]
        f = a["freq"]
        act = self._layable(h, o, None)
        if act is None:
            return "skipped"
        ids = [self.bind[h][n][1] for n in act]
        if len(set(ids)) != len(ids):
            return "skipped"
        mutable = {}
        for n in act:
            ms, mo = self.heap[self.bind[h][n][1]][1], self.heap[self.bind[o][n][1]][1]
            if mo.freq == f:
                ec = sm.t_clip(mo, None, a["end"])
                # the clipped copy keeps the library's reported rows: [lo, min(hi, end)]
                moc = SM(mo.freq, mo.nv, ec.cells, mo.lo, max(min(mo.hi, a["end"]) - mo.lo + 1, 0))
                if moc.n == 0:
                    continue        # nothing of the other series is left before `end`: receiver untouched
            else:
                moc = mo
            mutable[self.bind[h][n][1]] = sm.t_underlay(ms, moc)
        status, r, _ = self._run("box.prepend", "", lambda: box.prepend(other, P(f, a["end"])))
        self._crash_guard("box.prepend", "", status, r)
        self._exempt = set(self._lay_unspecified) - {self.bind[o][n][1] for n in self.bind[o] if self.bind[o][n][0] == "s"}
        try:
            self._check_heap("box.prepend", "", mutable)
        finally:
            self._exempt = set()
        self._check_bindings_unchanged("box.prepend", "")
        self._rederive()
        return "ok"

    def _do_merge(self, step, a):
        """merge / by_merging of one or several databoxes, handed over as a databox, a list, a tuple or a one-shot
        iterator, under every documented strategy: dictionary semantics, box after box, name after name."""
        h = a["box"]
        others_h = a["others"] if "others" in a else [a["other"]]
        how = a.get("how", "single")
        strat = a["strategy"]
        bs = self.bind[h] if h is not None else {}
        cur = {n: [x] for n, x in bs.items()}
        dups = []
        for o in others_h:
            for n, x in self.bind[o].items():
                if n not in cur:
                    cur[n] = [x]
                    continue
                dups.append(n)
                if strat == "replace":
                    cur[n] = [x]
                elif strat == "stack":
                    cur[n] = cur[n] + [x]
        want = {}
        for n, xs in cur.items():
            if len(xs) == 1:
                want[n] = self._value_exp(xs[0], fresh=False)
                continue
            if all(x[0] == "s" for x in xs):
                ms = [self.heap[x[1]][1] for x in xs]
                if len({m.freq for m in ms if m.lo is not None}) > 1:
                    return "skipped"     # rejected by the implementation; not judged here
                e = sm.t_hstack(ms[0], ms[1:])
                e.tight = False
                want[n] = ("s", e, "any")
            elif all(x[0] == "v" for x in xs):
                flat = []
                for x in xs:
                    flat += list(x[1]) if isinstance(x[1], tuple) else [x[1]]
                want[n] = ("v", tuple(flat))
            else:
                return "skipped"         # stacking a series onto a scalar or the reverse: unspecified
        others = [self.boxes[o] for o in others_h]
        if how == "single":
            arg = lambda: others[0]
        elif how == "list":
            arg = lambda: list(others)
        elif how == "tuple":
            arg = lambda: tuple(others)
        elif how == "generator":
            arg = lambda: (x for x in others)
        else:
            arg = lambda: map(lambda x: x, others)
        if how in ("generator", "map"):
            self.probes["merge_one_shot_iterable"] += 1
        if len(others) > 1:
            self.probes["merge_several_boxes"] += 1
        opname = ("by_merging." if h is None else "merge.") + strat
        pred = how if how in ("generator", "map") else ""
        if h is None:
            status, r, _ = self._run(opname, pred, lambda: ir.Databox.by_merging(arg(), strat))
        else:
            box = self.boxes[h]
            status, r, _ = self._run(opname, pred, lambda: box.merge(arg(), strat))
        if strat in ("error", "critical") and dups:
            # documented to raise; what a rejected merge leaves behind is open, except that nothing the receiver held
            # may change and nothing may appear that the others did not offer
            self.probes["merge_rejected_for_duplicates"] += 1
            if status == "ok":
                raise Violation("refine", opname, "duplicates", "", f"duplicate names {sorted(set(dups))[:4]} were not rejected under merge_strategy={strat!r}")
            if h is None:
                self._check_heap(opname, pred)
                self._check_bindings_unchanged(opname, pred)
                return "rejected"
            box = self.boxes[h]
            partial = {n: w for n, w in want.items() if n in bs or n in box.keys()}
            self._expect_box(opname, pred, box, partial, what="receiver of the rejected merge")
            self._check_heap(opname, pred)
            self._check_bindings_unchanged(opname, pred, exclude=(h,))
            self._rederive()
            return "rejected"
        self._crash_guard(opname, pred, status, r)
        if h is None:
            if not isinstance(r, ir.Databox):
                raise Violation("refine", opname, pred, "", f"by_merging returned {type(r).__name__}")
            for hh, b in self.boxes.items():
                if b is r:
                    raise Violation("alias", opname, pred, "", f"by_merging returned the live databox {hh}")
            self._expect_box(opname, pred, r, want, what="result")
            self._check_heap(opname, pred)
            self._check_bindings_unchanged(opname, pred)
            self.boxes[step["out"][0]] = r
            self.owner[step["out"][0]] = step.get("actor", "a0")
            self._rederive()
            return "ok"
        self._expect_box(opname, pred, box, want, what="receiver")
        self._check_heap(opname, pred)
        self._check_bindings_unchanged(opname, pred, exclude=(h,))
        self._rederive()
        return "ok"

    def _do_apply(self, step, a):
        """Databox.apply: the function reaches exactly the selected items; in place it works on the very objects,
        otherwise the results are bound under the same names; the rest of the databox is left alone."""
        h = a["box"]
        box = self.boxes[h]
        bind = self.bind[h]
        sel = a["source"]
        names = self.selection_names(sel, list(bind))
        fn, by = a["fn"], a["by"]
        want = {n: self._value_exp(x, fresh=False) for n, x in bind.items()}
        mutable = {}
        fails = False
        if fn == "shift_in_place":
            count = collections.Counter(bind[n][1] for n in names if bind[n][0] == "s")
            for i, c in count.items():
                mutable[i] = sm.t_shift_int(self.heap[i][1], by * c)
                if c > 1:
                    self.probes["apply_reaches_one_series_under_two_names"] += 1
            fails = any(bind[n][0] != "s" for n in names)
            # every name bound to a reached object sees it move, selected or not: it is one object
            for n, x in bind.items():
                if x[0] == "s" and x[1] in mutable:
                    e = mutable[x[1]]
                    want[n] = ("s", Exp(e.freq, e.nv, e.cells, desc=self.heap[x[1]][1].desc), ("same", x[1]))
            func = lambda x: x.shift(by)
            in_place = True
        else:
            for n in names:
                x = bind[n]
                if x[0] == "s":
                    e = sm.t_rowwise(self.heap[x[1]][1], lambda d: d + 1)
                    e.desc = None
                    want[n] = ("s", e, "fresh")
                elif isinstance(x[1], (int, float)) and not isinstance(x[1], bool):
                    want[n] = ("v", x[1] + 1)
                elif isinstance(x[1], bool):
                    want[n] = ("v", x[1] + 1)
                else:
                    fails = True
            func = lambda x: x + 1
            in_place = False
        opname = "apply." + fn
        pred = "source:" + sel["k"]
        status, r, _ = self._run(opname, pred, lambda: box.apply(func, self.selection_real(sel), in_place=in_place, when_fails=a["when_fails"]))
        if fails:
            self.probes["apply_function_failed_on_some_item"] += 1
        if fails and a["when_fails"] in ("critical", "error"):
            if status == "ok":
                raise Violation("refine", opname, pred, "", f"the function failed on a selected item but apply(when_fails={a['when_fails']!r}) returned normally")
            # what a rejected apply leaves behind is open item by item (old or new), never anything else; an object
            # bound under several selected names may have been reached any number of times up to that count
            if fn == "shift_in_place":
                for i, c in count.items():
                    real_i, m_i = self.heap[i]
                    for j in range(c, -1, -1):
                        e = sm.t_shift_int(m_i, by * j)
                        if conforms(real_i, e, "probe") is None:
                            if j == 0:
                                mutable.pop(i, None)
                            else:
                                mutable[i] = e
                            for n, x in bind.items():
                                if x == ("s", i):
                                    want[n] = ("s", Exp(e.freq, e.nv, e.cells, desc=m_i.desc), ("same", i)) if j else self._value_exp(x, fresh=False)
                            break
            for n, w in list(want.items()):
                old = self._value_exp(bind[n], fresh=False)
                if n in box.keys() and w != old:
                    v = box[n]
                    if old[0] == "s" and is_series(v) and id(v) == bind[n][1] and snapshot(v) == self.snaps[bind[n][1]]:
                        want[n] = old
                        mutable.pop(bind[n][1], None)
                    elif old[0] == "v" and not is_series(v) and (item_equal(_freeze_value(v), old[1]) or _freeze_value(v) == old[1]):
                        want[n] = old
        else:
            self._crash_guard(opname, pred, status, r)
        self._expect_box(opname, pred, box, want, what="receiver")
        self._check_heap(opname, pred, mutable)
        self._check_bindings_unchanged(opname, pred, exclude=(h,))
        self._rederive()
        return "ok" if status == "ok" else "rejected"

    def _do_or(self, step, a):
        h, o = a["box"], a["other"]
        box, other = self.boxes[h], self.boxes[o]
        want = {n: self._value_exp(x, fresh=False) for n, x in self.bind[h].items()}
        want = {n: (w if w[0] == "v" else (w[0], w[1], "any")) for n, w in want.items()}
        for n, x in self.bind[o].items():
            w = self._value_exp(x, fresh=False)
            want[n] = w if w[0] == "v" else (w[0], w[1], "any")
        status, r, _ = self._run("or", "", lambda: box | other)
        self._crash_guard("or", "", status, r)
        self._expect_box("or", "", r, want, what="result")
        self._check_heap("or", "")
        self._check_bindings_unchanged("or", "")
        out = step["out"][0]
        self.boxes[out] = r
        self.owner[out] = step.get("actor", "a0")
        self._rederive()
        return "ok"

    def _do_box_read(self, step, a):
        """Observers with dictionary semantics: they agree with the bindings and change nothing."""
        h = a["box"]
        box = self.boxes[h]
        bind = self.bind[h]
        f = a["freq"]
        F = ir.Frequency(cal.FREQ_VALUE[f])

        def thunk():
            bad = []
            if set(box.get_names()) != set(bind):
                bad.append("get_names")
            if set(box.get_names(PREDICATES[a["pred"]])) != {n for n in bind if PREDICATES[a["pred"]](n)}:
                bad.append("get_names(filter)")
            if box.num_items != len(bind):
                bad.append("num_items")
            if set(box.to_dict()) != set(bind):
                bad.append("to_dict")
            if bool(box.has(a["probe"])) != all(n in bind for n in a["probe"]):
                bad.append("has(list)")
            for n in a["probe"]:
                if bool(box.has(n)) != (n in bind):
                    bad.append(f"has({n!r})")
            if set(box.get_missing_names(a["probe"])) != {n for n in a["probe"] if n not in bind}:
                bad.append("get_missing_names")
            of_f = {n for n, x in bind.items() if x[0] == "s" and self.heap[x[1]][1].lo is not None and self.heap[x[1]][1].freq == f}
            if set(box.get_series_names_by_frequency(F)) != of_f:
                bad.append("get_series_names_by_frequency")
            sp = box.get_span_by_frequency(F)
            if of_f:
                lo = min(self.heap[bind[n][1]][1].lo for n in of_f)
                hi = max(self.heap[bind[n][1]][1].hi for n in of_f)
                if (int(sp.start.serial), int(sp.end.serial)) != (lo, hi):
                    bad.append(f"get_span_by_frequency {sp!r} vs serials [{lo},{hi}]")
            elif len(sp) != 0:
                bad.append("get_span_by_frequency of a frequency that is not in the databox is not empty")
            return bad
        status, r, _ = self._run("box_read", "", thunk)
        self._crash_guard("box_read", "", status, r)
        if r:
            raise Violation("refine", "box_read", "", "", f"databox observers disagree with its items: {r}")
        self._check_heap("box_read", "")
        self._check_bindings_unchanged("box_read", "")
        return "ok"

    def _do_item_op(self, step, a):
        h = a["box"]
        box = self.boxes[h]
        n = a["name"]
        x = self.bind[h][n]
        if x[0] != "s":
            return "skipped"
        real, m = self.heap[x[1]]
        kind = a["kind"]
        f = m.freq if m.lo is not None else a["freq"]
        if kind == "set":
            v = np.nan if a["v"] is None else a["v"]
            ts = list(range(a["t"], a["t"] + a["n"] + 1))
            e = sm.t_set(m, f, ts, list(range(m.nv)), lambda i, j: v)
            thunk = lambda: box[n].__setitem__(ir.Span(P(f, ts[0]), P(f, ts[-1])), v)
        elif kind == "shift":
            e = sm.t_shift_int(m, a["by"])
            thunk = lambda: box[n].shift(a["by"])
        elif kind == "clip":
            if m.lo is None:
                e = Exp(m.freq, m.nv, {})
            else:
                e = sm.t_clip(m, a["t"], a["t"] + a["n"])
            thunk = lambda: box[n].clip(P(f, a["t"]), P(f, a["t"] + a["n"]))
        elif kind == "abs":
            e = sm.t_rowwise(m, np.abs)
            thunk = lambda: box[n].abs()
        elif kind == "nvar":
            e = sm.t_nvar(m, a["num"])
            thunk = lambda: box[n].alter_num_variants(a["num"])
        elif kind == "replace_where":
            v = np.nan if a["v"] is None else a["v"]

            def f(x):
                x = x.copy()
                x[x > 1.0] = v
                return x
            e = sm.t_rowwise(m, f)
            thunk = lambda: box[n].replace_where(lambda x: x > 1.0, v)
        else:
            e = Exp(m.freq, m.nv, m.cells, desc=a["desc"])
            thunk = lambda: box[n].set_description(a["desc"])
        opname = "item." + kind
        status, r, _ = self._run(opname, "", thunk)
        self._crash_guard(opname, "", status, r)
        self._check_heap(opname, "", {x[1]: e})
        self._check_bindings_unchanged(opname, "")
        nshare = sum(1 for hh, b in self.bind.items() for nn, y in b.items() if y == x)
        if nshare > 1:
            self.probes["shared_series_mutated_through_one_box"] += 1
        self._rederive()
        return "ok"

    # -- CSV ----------------------------------------------------------------------------------------
    def _export_record(self, h, a):
        """What a completed export of box h with options a must read back as."""
        bind = self.bind[h]
        names = list(bind) if a["names"] is None else [n for n in a["names"] if n in bind]
        series = {n: self.heap[bind[n][1]][1] for n in names if bind[n][0] == "s"}
        span = a["span"]
        self._last_export_consecutive = True
        ranges = {}          # freq -> (lo, hi) | None (no rows)
        if span is None:
            freqs = set(m.freq for m in series.values() if m.lo is not None)
            for f in freqs:
                los = [m.lo for m in series.values() if m.lo is not None and m.freq == f]
                his = [m.hi for m in series.values() if m.lo is not None and m.freq == f]
                ranges[f] = (min(los), max(his))
            include_unknown = True
        elif span["k"] in ("span", "periods"):
            if span["k"] == "periods":
                listed = list(span["ts"])
            else:
                st = span.get("step", 1)
                listed = list(range(span["a"], span["b"] + (1 if st > 0 else -1), st))
            if not listed:
                return {}
            ranges[span["freq"]] = (min(listed), max(listed))
            only = {span["freq"]: set(listed)}
            include_unknown = False
            self._last_export_consecutive = not (len(listed) != max(listed) - min(listed) + 1 or listed != sorted(listed))
            if not self._last_export_consecutive:
                self.probes["export_span_not_a_consecutive_ascending_run"] += 1
        else:
            for f, v in span["v"].items():
                if v == "all":
                    los = [m.lo for m in series.values() if m.lo is not None and m.freq == f]
                    his = [m.hi for m in series.values() if m.lo is not None and m.freq == f]
                    if los:
                        ranges[f] = (min(los), max(his))
                else:
                    ranges[f] = (v[0], v[1])
            include_unknown = False
        out = {}
        rnd = a["round"]
        only = locals().get("only", {})
        for n, m in series.items():
            if m.lo is None:
                if include_unknown:
                    out[n] = (None, m.nv, {}, m.desc)
                continue
            if m.freq not in ranges:
                continue
            lo, hi = ranges[m.freq]
            cells = {}
            for t, v in m.cells.items():
                if lo <= t <= hi and (m.freq not in only or t in only[m.freq]):
                    cells[t] = np.round(v, rnd) if rnd is not None else v.copy()
            out[n] = (m.freq, m.nv, cells, m.desc)
        return out

    def _export_kwargs(self, a):
        kw = {"description_row": a["description_row"], "round": a["round"], "nan_str": a["nan_str"], "when_empty": a.get("when_empty") or "silent"}
        if a["names"] is not None:
            kw["names"] = list(a["names"])
        if a.get("formatter_fails_at") is not None:
            state = {"n": 0, "at": a["formatter_fails_at"]}

            def formatter(period):
                state["n"] += 1
                if state["n"] > state["at"]:
                    self._callback_failed = True
                    raise RuntimeError("sim: the caller's date formatter failed")
                return period.to_sdmx_string()
            kw["date_formatter"] = formatter
        if a.get("delimiter"):
            kw["delimiter"] = a["delimiter"]
            self.probes["export_other_delimiter"] += 1
        if a.get("quoting") == "nonnumeric":
            import csv
            kw["csv_writer_settings"] = {"quoting": csv.QUOTE_NONNUMERIC}
            self.probes["export_quote_nonnumeric"] += 1
        span = a["span"]
        if span is not None:
            if span["k"] == "span":
                kw["span"] = ir.Span(P(span["freq"], span["a"]), P(span["freq"], span["b"]), span.get("step", 1))
            elif span["k"] == "periods":
                kw["span"] = [P(span["freq"], t) for t in span["ts"]]
            else:
                F = ir.Frequency
                kw["frequency_span"] = {
                    F(cal.FREQ_VALUE[f]): (... if v == "all" else ir.Span(P(f, v[0]), P(f, v[1])))
                    for f, v in span["v"].items()
                }
        return kw

    def _export_predicate(self, rec, a):
        parts = []
        if rec and all(v[0] is None for v in rec.values()):
            parts.append("only_empty_series")
        if a["description_row"] and any("\n" in v[3] for v in rec.values()):
            parts.append("description_has_newline")
        return ",".join(parts)

    def _do_export(self, step, a):
        h = a["box"]
        box = self.boxes[h]
        path = a["path"]
        plan = a["plan"]
        rec = self._export_record(h, a)
        had = self.disk.get(path)
        before = {p: bytes(b) for p, b in self.fs.files.items()}
        if had is not None:
            self.probes["export_over_existing_file"] += 1
            if had == "torn":
                self.probes["export_over_torn_file"] += 1
            elif len(before.get(path, b"")) > 0:
                self.probes["export_over_residue"] += 1
        kw = self._export_kwargs(a)
        pred = self._export_predicate(rec, a)
        target = __import__("pathlib").Path(path) if a.get("pathlike") else path     # a str or an os.PathLike: the same file
        self._callback_failed = False
        status, r, fired = self._run("export", pred, lambda: box.to_csv_file(target, **kw), plan=plan, hold=bool(a.get("hold_exception")))
        if self._callback_failed:
            fired = list(fired) + ["callback_error"]
            self.faults_fired["callback_error"] += 1
        faulted = any(k not in ("short_write", "short_read", "eintr") for k in fired)
        # no other path may change, whatever happened
        for p, b in before.items():
            if p != path and bytes(self.fs.files.get(p, b"")) != b:
                raise Violation("isolation", "export", pred, "", f"export to {path} changed the content of {p}")
        selected = list(self.bind[h]) if a["names"] is None else [n for n in a["names"] if n in self.bind[h]]
        if a.get("when_empty") == "error" and not any(self.bind[h][n][0] == "s" for n in selected):
            # nothing to export and the caller asked for that to be an error: documented to raise, and an export that
            # was refused has written nothing - the file an earlier export completed is still that file
            self.probes["empty_export_rejected"] += 1
            if status == "ok":
                raise Violation("refine", "export.empty", pred, "", "no series was selected for export and when_empty='error' was given, but to_csv_file returned normally")
            if status == "raised" and not faulted:
                now = self.fs.files.get(path)
                was = before.get(path)
                if (now is None) != (was is None) or (now is not None and bytes(now) != was):
                    if had is not None:
                        self.disk[path] = "torn"
                    raise Violation("durability", "export.empty", pred, "", f"an export that was refused ({type(r).__name__}: nothing to export) changed {path}: "
                                    f"{'absent' if was is None else str(len(was)) + ' bytes'} before, {'absent' if now is None else str(len(bytes(now))) + ' bytes'} after")
                self._check_heap("export.empty", pred)
                self._check_bindings_unchanged("export.empty", pred)
                self._rederive()
                return "rejected"
        if status == "crashed":
            self.probes["crash_during_export"] += 1
            actor = self.owner[h]
            dead = [b for b in self.boxes if self.owner[b] == actor]
            self.disk[path] = "torn"
            # the crashing actor loses its memory; everybody else's objects must be untouched
            for b in dead:
                self.boxes.pop(b, None)
                self.owner.pop(b, None)
                self.bind.pop(b, None)
            for dname in [x for x, v in self.slates.items() if v[2] == actor]:
                self.slates.pop(dname, None)
            self._check_heap_after_retire("export", pred)
            self._rederive()
            return "crashed"
        if status == "raised":
            if not faulted:
                # no fault was delivered: the export itself failed on an input the property covers
                self.disk[path] = "torn"
                try:
                    self._check_heap("export", pred)
                    self._check_bindings_unchanged("export", pred)
                finally:
                    self._rederive()
                raise Violation("crash", "export", pred, type(r).__name__, f"to_csv_file raised {type(r).__name__}: {str(r)[:160]}")
            self.disk[path] = "torn" if path in self.fs.files else self.disk.get(path, "torn")
            if path not in self.fs.files:
                self.disk.pop(path, None)
            self.probes["export_failed_under_fault"] += 1
            if "close_eio" in fired:
                self.probes["fault_surfaced_in_close"] += 1
            # a failed export changes no in-memory object
            self._check_heap("export", pred)
            self._check_bindings_unchanged("export", pred)
            self._rederive()
            return "io_error:" + type(r).__name__
        # returned normally: this is a completed export whatever faults were delivered
        if faulted:
            self.probes["export_completed_despite_fault"] += 1
        if path not in self.fs.files:
            self.disk.pop(path, None)
            raise Violation("durability", "export", pred, "", f"to_csv_file returned normally{' (faults delivered: ' + ','.join(sorted(set(fired))) + ')' if faulted else ''} but there is no file {path}")
        self._check_heap("export", pred)
        self._check_bindings_unchanged("export", pred)
        self.disk[path] = ExportRecord(rec, a["description_row"], a["round"], self.seq, self._last_export_consecutive, a.get("delimiter"))
        if "short_write" in fired:
            try:
                bytes(self.fs.files[path]).decode("utf-8")
            except UnicodeDecodeError:
                pass
            self.probes["export_with_short_writes"] += 1
        self._rederive()
        return "ok"

    def _check_heap_after_retire(self, opname, pred):
        live_ids = set()
        for h, box in self.boxes.items():
            for n, v in box.items():
                if is_series(v):
                    live_ids.add(id(v))
        for i, (real, m) in self.heap.items():
            if i in live_ids and snapshot(real) != self.snaps[i]:
                raise Violation("isolation", opname, pred, "", "a series of a surviving actor changed during another actor's crashed export")

    def _check_import(self, opname, pred, box, rec: ExportRecord, path):
        want = {}
        for n, (f, nv, cells, desc) in rec.series.items():
            e = Exp(f, nv, cells, tight=True, desc=desc if rec.description_row else None)
            want[n] = ("s", e, "fresh")
        if set(box.keys()) != set(want):
            extra = sorted(set(box.keys()) - set(want))
            miss = sorted(set(want) - set(box.keys()))
            # residue of an earlier, longer file shows up as unexpected names/rows
            klass = "roundtrip"
            raise Violation(klass, opname, pred, "", f"import of {path} has wrong names: unexpected {extra}, missing {miss}")
        for n, w in want.items():
            v = box[n]
            if not is_series(v):
                raise Violation("roundtrip", opname, pred, "", f"imported item {n!r} is not a Series")
            bad = conforms(v, w[1], f"import {path} item {n!r}")
            if bad:
                raise Violation("roundtrip", opname, pred, "", bad[1] + f" [{bad[0]}]")
            if w[1].desc is not None and v.get_description() != w[1].desc:
                raise Violation("roundtrip", opname, pred, "", f"imported {n!r} has description {v.get_description()!r}, exported {w[1].desc!r}")
            for i, (real, _) in self.heap.items():
                if real is v or np.shares_memory(real.data, v.data):
                    raise Violation("alias", opname, pred, "", f"imported {n!r} shares memory with a live series")

    def _do_import(self, step, a):
        path = a["path"]
        if path not in self.fs.files:
            return "skipped"
        rec = self.disk.get(path)
        plan = a["plan"]
        pred = ""
        if rec is not None and rec != "torn":
            parts = []
            if rec.series and all(v[0] is None for v in rec.series.values()):
                parts.append("only_empty_series")
            if rec.description_row and any("\n" in v[3] for v in rec.series.values()):
                parts.append("description_has_newline")
            pred = ",".join(parts)
        opens_before = self.fs.totals["open"]
        kw = {"description_row": a["description_row"]}
        if rec is not None and rec != "torn" and rec.delimiter:
            kw["delimiter"] = rec.delimiter
        if a.get("start_period_only") and (rec is None or rec == "torn" or rec.consecutive):
            # the exported blocks are contiguous, so inferring the periods from the first one must give the same series
            kw["start_period_only"] = True
            pred = ",".join(x for x in (pred, "start_period_only") if x)
            self.probes["import_start_period_only"] += 1
        transform = None
        if a.get("name_transform") == "upper" and rec is not None and rec != "torn" and len({n.upper() for n in rec.series}) == len(rec.series):
            # the documented hook for rewriting the NAME row: names change, descriptions and everything else do not
            kw["name_row_transform"] = str.upper
            transform = str.upper
            self.probes["import_name_row_transform"] += 1
        source = __import__("pathlib").Path(path) if a.get("pathlike") else path
        if rec is None or rec == "torn":
            # reading a torn file is counted, not judged - and not waited for either: garbage parsed into periods millennia
            # apart makes the reader pad arrays by the gigabyte; the harness gives it a few seconds and moves on (the
            # outcome string does not say how it ended, so that the event log stays a function of the seed)
            from ..kit.core import _alarm

            class _Abandon(BaseException):
                pass
            try:
                with _alarm(float(os.environ.get("VERIF_TORN_READ_S", "4")), _Abandon):
                    status, r, fired = self._run("import", pred, lambda: ir.Databox.from_csv_file(source, **kw), plan=plan)
            except _Abandon:
                status, r, fired = "abandoned", None, []
            self.probes["import_opens_total"] += self.fs.totals["open"] - opens_before
            self._check_heap("import", pred)
            self._check_bindings_unchanged("import", pred)
            self.probes["torn_read_" + {"ok": "returned", "abandoned": "abandoned"}.get(status, "raised")] += 1
            return "torn"
        status, r, fired = self._run("import", pred, lambda: ir.Databox.from_csv_file(source, **kw), plan=plan)
        faulted = any(k not in ("short_write", "short_read", "eintr") for k in fired)
        self.probes["import_opens_total"] += self.fs.totals["open"] - opens_before
        self._check_heap("import", pred)
        self._check_bindings_unchanged("import", pred)
        if rec is None or rec == "torn":
            # torn file: outcome counted, not judged
            self.probes["torn_read_" + ("raised" if status != "ok" else "returned")] += 1
            return "torn:" + status
        if status == "crashed":
            return "crashed"
        if status == "raised":
            if faulted:
                self.probes["import_failed_under_fault"] += 1
                return "io_error:" + type(r).__name__
            raise Violation("crash", "import", pred, type(r).__name__, f"from_csv_file of a completed export raised {type(r).__name__}: {str(r)[:160]}")
        if a["description_row"] != rec.description_row:
            return "skipped"
        if "short_read" in fired:
            self.probes["import_with_short_reads"] += 1
        if faulted:
            self.probes["import_completed_despite_fault"] += 1
        if transform is not None:
            rec = ExportRecord({transform(n): v for n, v in rec.series.items()}, rec.description_row, rec.round, rec.seq, rec.consecutive, rec.delimiter)
        self._check_import("import", pred, r, rec, path)
        if len(set(v[0] for v in rec.series.values() if v[0])) > 1:
            self.probes["import_multi_frequency_blocks"] += 1
        if any(v[1] > 1 for v in rec.series.values()):
            self.probes["import_multi_variant_columns"] += 1
        out = step["out"][0]
        self.boxes[out] = r
        self.owner[out] = step.get("actor", "a0")
        self._rederive()
        return "ok"

    # -- dataslate ------------------------------------------------------------------------------------
    def _do_slate(self, step, a):
        prep = self._slate_prepare(a)
        if prep is None:
            return "skipped"
        box, names, span, want, kw = prep
        pred = ""
        holder = {}

        def thunk():
            ds = ir.Dataslate.from_databox(box, list(names), span, **kw)
            holder["ds"] = ds
            return ds.to_databox()
        status, r, _ = self._run("slate", pred, thunk)
        self._crash_guard("slate", pred, status, r)
        self._expect_box("slate", pred, r, want, what="round-tripped")
        ds = holder["ds"]
        for nm in r.keys():
            for k in range(ds.num_variants):
                if np.shares_memory(ds.get_data_variant(k), r[nm].data):
                    self.probes["slate_result_views_slate"] += 1
        self._check_heap("slate", pred)
        self._check_bindings_unchanged("slate", pred)
        out = step["out"][0]
        self.boxes[out] = r
        self.owner[out] = step.get("actor", "a0")
        self._rederive()
        return "ok"

    def _slate_prepare(self, a):
        h = a["box"]
        box = self.boxes[h]
        bind = self.bind[h]
        f, lo, n, nv = a["freq"], a["a"], a["n"], a["num_variants"]
        names = a["names"]
        for nm in names:
            x = bind.get(nm)
            if x and x[0] == "s":
                m = self.heap[x[1]][1]
                if m.lo is not None and m.freq != f:
                    return None
        span = ir.Span(P(f, lo), P(f, lo + n - 1))

        def pick(v, k):
            if isinstance(v, (list, tuple)):
                return float(v[min(k, len(v) - 1)])
            return float(v)
        want = {}
        for nm in names:
            cols = []
            x = bind.get(nm)
            for k in range(nv):
                if x is None:
                    col = np.full(n, np.nan)
                elif x[0] == "s":
                    m = self.heap[x[1]][1]
                    col = m.arr(lo, lo + n - 1)[:, min(k, m.nv - 1)] if m.nv else np.full(n, np.nan)
                else:
                    col = np.full(n, pick(x[1], k))
                col = col.copy()
                fb = (a["fallbacks"] or {}).get(nm)
                if fb is not None:
                    col[np.isnan(col)] = pick(fb, k)
                ow = (a["overwrites"] or {}).get(nm)
                if ow is not None:
                    if isinstance(ow, dict):
                        sp = ow["series"]
                        vals = from_nan_list(sp["values"], sp["nv"])
                        col[:] = np.nan
                        for i in range(vals.shape[0]):
                            t = sp["start"] + i
                            if lo <= t < lo + n:
                                col[t - lo] = vals[i, min(k, sp["nv"] - 1)]
                        self.probes["slate_overwrite_by_partial_series"] += 1
                    elif ow == "nan":
                        col[:] = np.nan
                    else:
                        col[:] = pick(ow, k)
                    if fb is not None:
                        self.probes["slate_fallback_and_overwrite_for_one_name"] += 1
                cols.append(col)
            arr = np.column_stack(cols)
            want[nm] = ("s", Exp(f, nv, {lo + i: arr[i] for i in range(n)}), "any")
        kw = {"num_variants": nv}
        if a["fallbacks"]:
            kw["fallbacks"] = {k: (list(v) if isinstance(v, list) else v) for k, v in a["fallbacks"].items()}
        if a["overwrites"]:
            def real_ow(v):
                if isinstance(v, dict):
                    sp = v["series"]
                    return ir.Series(num_variants=sp["nv"], start=P(f, sp["start"]), values=from_nan_list(sp["values"], sp["nv"]))
                if v == "nan":
                    return float("nan")
                return list(v) if isinstance(v, list) else v
            kw["overwrites"] = {k: real_ow(v) for k, v in a["overwrites"].items()}
        return box, names, span, want, kw

    # live dataslates: several databoxes taken from one slate, the slate mutated in between -------------
    def _do_slate_new(self, step, a):
        prep = self._slate_prepare(a)
        if prep is None:
            return "skipped"
        box, names, span, want, kw = prep
        status, r, _ = self._run("slate_new", "", lambda: ir.Dataslate.from_databox(box, list(names), span, **kw))
        self._crash_guard("slate_new", "", status, r)
        self._check_heap("slate_new", "")
        self._check_bindings_unchanged("slate_new", "")
        for k in range(r.num_variants):
            for i, (real, _) in self.heap.items():
                if np.shares_memory(r.get_data_variant(k), real.data):
                    raise Violation("alias", "slate_new", "", "", "the dataslate shares a buffer with a series of the source databox")
        # remember plain arrays: name -> (freq, nv, lo, n x nv array)
        exp = {}
        for nm, w in want.items():
            e = w[1]
            lo, n, nv = a["a"], a["n"], a["num_variants"]
            arr = np.full((n, nv), np.nan)
            for t, v in e.cells.items():
                arr[t - lo] = v
            exp[nm] = [a["freq"], nv, lo, arr]
        self.slates[step["out"][0]] = [r, exp, step.get("actor", "a0")]
        self.probes["live_dataslate_created"] += 1
        return "ok"

    def _slate_want(self, exp):
        # sharing a buffer with the slate (or with a databox taken from it earlier) is not what the property forbids;
        # interference is, and the isolation monitors of heap and slates watch for it
        want = {}
        for nm, (f, nv, lo, arr) in exp.items():
            want[nm] = ("s", Exp(f, nv, {lo + i: arr[i] for i in range(arr.shape[0])}), "any")
        return want

    def _check_slates(self, opname):
        """Every live dataslate still holds what the model says (its arrays are nobody else's to change)."""
        for d, (real, exp, _) in self.slates.items():
            names = list(real.names)
            for nm, (f, nv, lo, arr) in exp.items():
                row = names.index(nm)
                got = np.column_stack([real.get_data_variant(k)[row, :] for k in range(real.num_variants)])
                if got.shape != arr.shape or not np.array_equal(got, arr, equal_nan=True):
                    raise Violation("isolation", opname, "", "", f"the values held by live dataslate {d} for {nm!r} changed although the operation was not applied to it")

    def _do_slate_to_box(self, step, a):
        d = a["d"]
        real, exp, _ = self.slates[d]
        target = a.get("target")
        want = self._slate_want(exp)
        opts = dict(a.get("opts") or {})
        if opts.get("trim") is False:
            self.probes["slate_to_box_untrimmed"] += 1
        if target is None:
            status, r, _ = self._run("slate_to_box", "", lambda: real.to_databox(**opts))
            self._crash_guard("slate_to_box", "", status, r)
            recv = None
        else:
            # the caller's databox (a new, still empty one or an existing one) is filled in place and returned
            tbox = ir.Databox() if target == "empty" else self.boxes[target]
            opname = "slate_to_box." + ("empty_target" if target == "empty" else "existing_target")
            status, r, _ = self._run(opname, "", lambda: real.to_databox(target_db=tbox, **opts))
            self._crash_guard(opname, "", status, r)
            if r is not tbox:
                raise Violation("refine", opname, "", "", "to_databox(target_db=box) returned another object than the databox it was given")
            if target != "empty":
                merged = {n: self._value_exp(x, fresh=False) for n, x in self.bind[target].items()}
                merged.update(want)
                want = merged
            recv = None if target == "empty" else target
            r = tbox
            self.probes["slate_to_box_into_target"] += 1
        self._expect_box("slate_to_box", "", r, want, what="round-tripped")
        self._check_heap("slate_to_box", "")
        self._check_bindings_unchanged("slate_to_box", "", exclude=(recv,) if recv else ())
        self._check_slates("slate_to_box")
        if recv is None:
            out = step["out"][0]
            self.boxes[out] = r
            self.owner[out] = step.get("actor", "a0")
        self._rederive()
        self.probes["databox_taken_from_live_dataslate"] += 1
        return "ok"

    def _do_slate_rescale(self, step, a):
        d = a["d"]
        real, exp, _ = self.slates[d]
        status, r, _ = self._run("slate_rescale", "", lambda: real.rescale_data(a["factor"]))
        self._crash_guard("slate_rescale", "", status, r)
        for nm in exp:
            exp[nm][3] = exp[nm][3] * a["factor"]
        # databoxes taken from the slate earlier, the source databox and every other slate are untouched
        self._check_heap("slate_rescale", "")
        self._check_bindings_unchanged("slate_rescale", "")
        self._check_slates("slate_rescale")
        return "ok"

    def _do_slate_copy(self, step, a):
        d = a["d"]
        real, exp, owner = self.slates[d]
        how = a["how"]
        status, r, _ = self._run("slate_" + how, "", lambda: getattr(real, how)())
        self._crash_guard("slate_" + how, "", status, r)
        for k in range(r.num_variants):
            for j in range(real.num_variants):
                if np.shares_memory(r.get_data_variant(k), real.get_data_variant(j)):
                    raise Violation("alias", "slate_" + how, "", "", f"Dataslate.{how}() shares a data buffer with the original")
        new_exp = {}
        for nm, (f, nv, lo, arr) in exp.items():
            new_exp[nm] = [f, nv, lo, arr.copy() if how == "copy" else np.full(arr.shape, np.nan)]
        self.slates[step["out"][0]] = [r, new_exp, step.get("actor", "a0")]
        self._check_heap("slate_" + how, "")
        self._check_slates("slate_" + how)
        return "ok"

    # -- end of run: durability and bounded recovery ---------------------------------------------
    def finish(self):
        with warnings.catch_warnings():
            warnings.simplefilter("ignore")
            with np.errstate(all="ignore"):
                self._finish()

    def _finish(self):
        # 1. durability: every completed export whose path was not written since still reads back
        for path, rec in sorted(self.disk.items()):
            if rec == "torn":
                continue
            parts = []
            if rec.series and all(v[0] is None for v in rec.series.values()):
                parts.append("only_empty_series")
            if rec.description_row and any("\n" in v[3] for v in rec.series.values()):
                parts.append("description_has_newline")
            pred = ",".join(parts)
            if self._held:
                self._release_held()
            kwr = {"delimiter": rec.delimiter} if rec.delimiter else {}
            status, r, _ = self._run("finish.reread", pred, lambda: ir.Databox.from_csv_file(path, description_row=rec.description_row, **kwr))
            if status != "ok":
                v = Violation("crash", "import", pred, type(r).__name__, f"final re-read of completed export {path} raised {type(r).__name__}: {str(r)[:160]}")
                if self.known is not None and self.known.match(v):
                    self.known_hits[v.signature] += 1
                    self.known_examples.setdefault(v.signature, {"what": self.known.match(v).get("what", ""), "message": v.message})
                    continue
                raise v
            self._check_import("finish.reread", pred, r, rec, path)
            self.stats["finish.reread"] += 1
        # 2. bounded recovery: after the last fault, a clean export of every live box to a torn path (or a
        #    fresh one) followed by a clean import satisfies the round-trip oracle within these two operations
        torn = sorted(p for p, r in self.disk.items() if r == "torn")
        for k, h in enumerate(sorted(self.boxes)):
            path = torn[k % len(torn)] if torn else f"/sim/recover{k}.csv"
            a = {"box": h, "path": path, "names": None, "span": None, "description_row": True, "round": None,
                 "nan_str": "", "plan": None}
            rec = self._export_record(h, a)
            pred = self._export_predicate(rec, a)
            status, r, _ = self._run("finish.export", pred, lambda: self.boxes[h].to_csv_file(path, **self._export_kwargs(a)))
            if status != "ok":
                v = Violation("crash", "export", pred, type(r).__name__, f"recovery export raised {type(r).__name__}: {str(r)[:160]}")
                if self.known is not None and self.known.match(v):
                    self.known_hits[v.signature] += 1
                    continue
                raise v
            status, r, _ = self._run("finish.import", pred, lambda: ir.Databox.from_csv_file(path, description_row=True))
            if status != "ok":
                v = Violation("crash", "import", pred, type(r).__name__, f"recovery import raised {type(r).__name__}: {str(r)[:160]}")
                if self.known is not None and self.known.match(v):
                    self.known_hits[v.signature] += 1
                    self.known_examples.setdefault(v.signature, {"what": self.known.match(v).get("what", ""), "message": v.message})
                    continue
                raise v
            self._check_import("finish.import", pred, r, ExportRecord(rec, True, None, self.seq), path)
            self.stats["finish.recovered"] += 1
            if torn:
                self.probes["recovery_over_torn_path"] += 1


def _freeze_value(v):
    if isinstance(v, list):
        return tuple(_freeze_value(x) for x in v)
    if isinstance(v, np.generic):
        return v.item()
    return v


def simplifiers(step):
    import copy
    a = step.get("args", {})
    if isinstance(a.get("plan"), dict):
        p = a["plan"]
        if p.get("faults"):
            s = copy.deepcopy(step)
            s["args"]["plan"]["faults"] = []
            yield s
        if p.get("short_write") or p.get("short_read"):
            s = copy.deepcopy(step)
            s["args"]["plan"]["short_write"] = None
            s["args"]["plan"]["short_read"] = None
            yield s
        if p.get("eintr"):
            s = copy.deepcopy(step)
            s["args"]["plan"]["eintr"] = None
            yield s
    if step["op"] == "new_box" and len(a["items"]) > 1:
        for n in list(a["items"]):
            s = copy.deepcopy(step)
            del s["args"]["items"][n]
            yield s
    if step["op"] in ("new_box",):
        for n, spec in a["items"].items():
            if spec["t"] == "series" and len(spec["values"]) > 1:
                s = copy.deepcopy(step)
                s["args"]["items"][n]["values"] = spec["values"][:1]
                yield s
            if spec["t"] == "series" and spec["nv"] > 1 and spec["values"]:
                s = copy.deepcopy(step)
                s["args"]["items"][n]["nv"] = 1
                s["args"]["items"][n]["values"] = [r[:1] for r in spec["values"]]
                yield s
            if spec["t"] == "series" and spec["desc"]:
                s = copy.deepcopy(step)
                s["args"]["items"][n]["desc"] = ""
                yield s
    if step["op"] == "export":
        for key, simple in (("names", None), ("span", None), ("round", 12), ("nan_str", ""), ("description_row", False)):
            if a.get(key) != simple:
                s = copy.deepcopy(step)
                s["args"][key] = simple
                yield s
