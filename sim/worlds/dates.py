"""
World `dates` (property C09, histories clause): several live Span and Period objects of all six
frequencies; in-place span mutators, pure operators, spans built from other spans' end points, open-ended
spans resolved against contexts.  After every step every live span is compared with an int/range model
(independent calendar for the period observers) and every other live object must be unchanged.

No I/O, clock or global state exists on these paths: the fault space is empty and the schedule is the
interleaving of operations over objects that share Period instances.
"""

from __future__ import annotations

import datetime as dt
import warnings

from ..kit import cal
from ..kit.core import World, Violation, HarnessError, canon, sha1, strip_traceback

ir = None
PC = None
FREQ = None
IrisPieError = None


def _lazy():
    global ir, PC, FREQ, IrisPieError
    if ir is None:
        import irispie as _ir
        from irispie.dates import PERIOD_CLASS_FROM_FREQUENCY_RESOLUTION as _PC, Frequency as _F
        from irispie.wrongdoings import IrisPieError as _E
        ir, PC, FREQ, IrisPieError = _ir, _PC, _F, _E
    return ir


def P(f, s):
    _lazy()
    return PC[FREQ(cal.FREQ_VALUE[f])](int(s))


def letter(period):
    v = int(period.frequency)
    for k, x in cal.FREQ_VALUE.items():
        if x == v:
            return k
    raise HarnessError("frequency")


def sign(x):
    return (x > 0) - (x < 0)


OP_WEIGHTS = {
    "new_period": 4, "new_span": 6, "drop": 2,
    "reverse": 6, "shift": 6, "shift_start": 6, "shift_end": 6,
    "add": 4, "sub": 3, "restep": 3, "reversed": 4, "copy": 3, "from_ends": 5, "pow": 3, "resolve": 4,
    "distance": 3, "index": 4, "slice": 4, "contains": 2, "eq": 2, "encompassing": 2, "from_until": 2,
    "p_arith": 5, "p_compare": 4, "p_hash": 3, "p_calendar": 5, "p_keyword": 4, "p_mix": 3, "p_span_ops": 2,
    "resolve_mix": 2, "p_derive": 4, "p_convert": 4, "span_strings": 2, "iter_open": 2, "iter_next": 4,
}
MUTATING = {"reverse", "shift", "shift_start", "shift_end"}
MAX_SPAN = 400      # periods; longer spans only make the per-step full comparison slow


class SpanM:
    """a, b: int serial or ("ctx", "start_date"|"end_date", offset)"""
    __slots__ = ("f", "a", "b", "step")

    def __init__(self, f, a, b, step):
        self.f, self.a, self.b, self.step = f, a, b, step

    def copy(self):
        return SpanM(self.f, self.a, self.b, self.step)

    @property
    def contextual(self):
        return isinstance(self.a, (tuple, list)) or isinstance(self.b, (tuple, list))

    def rng(self):
        return range(self.a, self.b + sign(self.step), self.step)

    def dump(self):
        return [self.f, self.a, self.b, self.step]


def end_shift(x, k):
    if isinstance(x, (tuple, list)):
        return ("ctx", x[1], x[2] + k)
    return x + k


def ident(x):
    """identity of an end point for snapshots (public surface only: serial/frequency, or the printed form of an open end)"""
    if getattr(x, "needs_resolve", False):
        return ("ctx", str(x))
    return (type(x).__name__, int(x.serial))


def ctx_str(e):
    """printed form of a context-dependent end point, e.g. <>.start+1"""
    side = "start" if e[1] == "start_date" else "end"
    return "<>." + side + (f"{e[2]:+g}" if e[2] else "")


def span_snapshot(s):
    return (ident(s.start), ident(s.end), s.step, bool(s.needs_resolve))


class DatesWorld(World):
    NET_ALL = True   # every step of this world is a handful of calls on irispie dates and nothing else
    PROPERTY = "C09"
    NAME = "dates"

    @classmethod
    def swarm(cls, rng, tier):
        freqs = rng.sample(list(cal.ALL_FREQS), rng.randint(1, 3))
        kinds = list(OP_WEIGHTS)
        disabled = [k for k in kinds if k not in ("new_period", "new_span") and rng.random() < 0.2]
        weights = {k: (0 if k in disabled else OP_WEIGHTS[k] * rng.choice([1, 1, 2, 3])) for k in kinds}
        if rng.random() < 0.08:
            # calendar walk: one long history p, p+1, p+2, ... through consecutive periods (several years, across
            # leap days, year and century boundaries), every visited period checked against the independent calendar
            f = rng.choice(["Y", "H", "Q", "M", "D", "D"])
            year = rng.choice([1899, 1999, 2019, 2023, 2099, 2399, rng.randint(1601, 2400)])
            return {"world": cls.NAME, "mode": "walk", "freqs": [f], "spans": 2, "periods": 4, "actors": 1,
                    "steps": 420 if tier == "quick" else 1500, "year_focus": [year], "p_contextual": 0.0, "weights": weights,
                    "walk": {"f": f, "start_year": year, "stride": rng.choice([1, 1, 1, 2, 7]) if f == "D" else 1}}
        return {
            "world": cls.NAME, "freqs": freqs, "spans": rng.randint(2, 6) if tier == "quick" else rng.randint(2, 9),
            "periods": rng.randint(2, 8) if tier == "quick" else rng.randint(2, 12),
            "actors": rng.randint(1, 3), "steps": rng.choice([20, 40, 40]) if tier == "quick" else rng.choice([20, 40, 80, 150]),
            "year_focus": rng.choice([[1999, 2000, 2001], [2019, 2020, 2021], [2023, 2024, 2025], [5, 1900, 2100, 9990], [1600, 2400]]),
            "p_contextual": rng.choice([0.0, 0.15, 0.3]),
            "weights": weights,
        }

    def __init__(self, cfg, known=None):
        super().__init__(cfg, known)
        _lazy()
        self.spans = {}     # handle -> (real, SpanM)
        self.periods = {}   # handle -> (real, (f, serial))
        self.owner = {}
        self.snaps = {}
        self.iters = {}     # handle -> in-flight iteration over a live span (an operation that has begun and not ended)
        self.counter = 0

    # -- bookkeeping ------------------------------------------------------------------------------
    def _name(self, prefix):
        self.counter += 1
        return f"{prefix}{self.counter}"

    def step_handles(self, step):
        a = step.get("args", {})
        hs = [a[k] for k in ("s", "o", "p", "q") if isinstance(a.get(k), str)]
        hs.extend(step.get("out", []) or [])
        return tuple(hs)

    def can_apply(self, step):
        outs = set(step.get("out", []) or [])
        for h in self.step_handles(step):
            if h not in outs and h not in self.spans and h not in self.periods:
                return False
        if step["op"] == "iter_next" and step["args"]["it"] not in self.iters:
            return False
        return True

    def retire(self, handles):
        for h in handles:
            self.spans.pop(h, None)
            self.periods.pop(h, None)
            self.snaps.pop(h, None)
            self.owner.pop(h, None)
            self.iters.pop(h, None)
        for it in [i for i, info in self.iters.items() if info["span"] not in self.spans]:
            self.iters.pop(it, None)

    def finish(self):
        # iterations still in flight at the end of the run are completed and judged
        for it in sorted(self.iters):
            self._iter_pull(it, 10 ** 6, "finish.iter_next")

    def fingerprint(self):
        return sha1(canon({"s": {h: m.dump() for h, (_, m) in sorted(self.spans.items())},
                           "p": {h: list(m) for h, (_, m) in sorted(self.periods.items())}}))

    def abstract(self):
        out = []
        for h, (_, m) in self.spans.items():
            if m.contextual:
                out.append((m.f or "-", sign(m.step), abs(m.step), "ctx", False, True))
                continue
            n = len(m.rng())
            bucket = 0 if n == 0 else 1 if n == 1 else 2 if n <= 4 else 3
            out.append((m.f, sign(m.step), abs(m.step), bucket, (m.b - m.a) % abs(m.step) == 0, False))
        return (sorted(out, key=repr), len(self.periods))

    # -- generation -------------------------------------------------------------------------------
    def _rand_serial(self, rng, f):
        if f == "I":
            return rng.randint(-30, 30)
        y = rng.choice(self.cfg["year_focus"])
        y = min(max(y, 3), 9996)
        if f == "D":
            r = rng.random()
            if r < 0.3:
                d = dt.date(y, 12, 31)
            elif r < 0.5:
                d = dt.date(y, 1, 1)
            elif r < 0.65:
                d = dt.date(y, 2, 28)
            elif r < 0.75:
                d = dt.date(y, 3, 1)
            elif r < 0.85:
                # month edges: first and last days of months other than the year's own edges
                m = rng.randint(1, 12)
                d = dt.date(y, m, 1) if rng.random() < 0.5 else dt.date(y, m, 1) - dt.timedelta(days=1)
            else:
                d = dt.date(y, rng.randint(1, 12), rng.randint(1, 28))
            return d.toordinal() + rng.randint(-2, 2)
        v = cal.FREQ_VALUE[f]
        return y * v + rng.choice([0, v - 1, rng.randrange(v)]) + rng.choice([0, 0, -1, 1])

    def _gen_walk(self, rng):
        w = self.cfg["walk"]
        f = w["f"]
        stt = getattr(self, "_walk", None)
        if stt is None:
            start = cal.serial_from_year_segment(f, w["start_year"], 1) + (rng.randint(300, 360) if f == "D" else 0)
            self._walk = stt = {"h": None, "phase": 0}
            step = {"op": "new_period", "out": [self._name("p")], "args": {"f": f, "serial": start}}
            stt["h"] = step["out"][0]
            return step
        if stt["phase"] == 0:
            stt["phase"] = 1
            return {"op": "p_calendar", "args": {"p": stt["h"]}}
        if stt["phase"] == 1:
            stt["phase"] = 1.5
            return {"op": "p_keyword", "args": {"p": stt["h"], "kw": rng.choice(["yoy", "soy", "eopy", "tty"]), "k": 1}}
        if stt["phase"] == 1.5:
            stt["phase"] = 2
            return {"op": "p_convert", "args": {"p": stt["h"], "g": rng.choice(["Y", "H", "Q", "M", "D"]), "position": rng.choice(["start", "middle", "end"]), "day": rng.random()}}
        # advance: the successor joins, the old one is dropped (keeps the population at one walker)
        if stt["phase"] == 2:
            stt["phase"] = 3
            step = {"op": "p_derive", "out": [self._name("p")], "args": {"p": stt["h"], "how": rng.choice(["add", "radd", "shift"]), "n": w["stride"]}}
            stt["old"], stt["h"] = stt["h"], step["out"][0]
            return step
        stt["phase"] = 0
        self.probes["calendar_walk_steps"] += 1
        return {"op": "drop", "args": {"p": stt["old"]}}

    def gen_step(self, st):
        rng, sched = st.get("ops"), st.get("sched")
        cfg = self.cfg
        if cfg.get("mode") == "walk":
            step = self._gen_walk(rng)
            step["actor"] = "a0"
            return step
        actor = f"a{sched.randrange(cfg['actors'])}"
        if len(self.spans) < 2:
            step = self._gen_new_span(actor, rng)
            step["actor"] = actor
            return step
        if len(self.periods) < 2:
            step = self._gen_new_period(actor, rng)
            step["actor"] = actor
            return step
        w = cfg["weights"]
        kinds = [k for k in w if w[k] > 0]
        for _ in range(40):
            kind = rng.choices(kinds, weights=[w[k] for k in kinds])[0]
            makes_span = kind in ("new_span", "add", "sub", "restep", "reversed", "copy", "from_ends", "pow", "resolve", "encompassing")
            if makes_span and len(self.spans) >= cfg["spans"] + 1:
                kind = "drop"
            if kind in ("new_period", "p_derive") and len(self.periods) >= cfg["periods"]:
                kind = "drop"
            step = getattr(self, "_gen_" + kind)(actor, rng)
            if step is not None:
                step["actor"] = actor
                return step
        step = self._gen_new_span(actor, rng)
        step["actor"] = actor
        return step

    def _pick_span(self, rng, actor, pred=None):
        own = sorted(h for h, (_, m) in self.spans.items() if self.owner[h] == actor and (pred is None or pred(m)))
        oth = sorted(h for h, (_, m) in self.spans.items() if self.owner[h] != actor and (pred is None or pred(m)))
        if own and (not oth or rng.random() < 0.6):
            return rng.choice(own)
        if oth:
            return rng.choice(oth)
        return None

    def _pick_period(self, rng, pred=None):
        c = sorted(h for h, (_, m) in self.periods.items() if pred is None or pred(m))
        return rng.choice(c) if c else None

    def _gen_new_period(self, actor, rng):
        f = rng.choice(self.cfg["freqs"])
        return {"op": "new_period", "out": [self._name("p")], "args": {"f": f, "serial": self._rand_serial(rng, f)}}

    def _gen_new_span(self, actor, rng):
        f = rng.choice(self.cfg["freqs"])
        a = self._rand_serial(rng, f)
        n = rng.randint(-6, 10)
        step = rng.choice([1, 1, 1, -1, -1, 2, -2, 3, -3, 7])
        b = a + n
        r = rng.random()
        ctor = "Span"
        if rng.random() < self.cfg["p_contextual"]:
            ctor = rng.choice(["open_start", "open_end", "open_both", "op_open_start", "op_open_end"])
        elif step == 1 and r < 0.3:
            ctor = "rshift"
        elif step == -1 and r < 0.5:
            ctor = "lshift"
        elif f in cal.REGULAR and step == 1 and r < 0.5:
            ctor = "ellipsis"
        args = {"f": f, "a": a, "b": b, "step": step, "ctor": ctor}
        recent = getattr(self, "_recent_span_args", None)
        if recent is None:
            recent = self._recent_span_args = []
        if recent and rng.random() < 0.15:
            # the very same constructor call as earlier in the run: it must build a new span, not hand out the old one
            args = dict(rng.choice(recent))
            self.probes["constructor_call_repeated"] += 1
        else:
            recent.append(dict(args))
            del recent[:-4]
        return {"op": "new_span", "out": [self._name("s")], "args": args}

    def _gen_drop(self, actor, rng):
        if len(self.spans) > 2 and rng.random() < 0.6:
            return {"op": "drop", "args": {"s": rng.choice(sorted(self.spans))}}
        if len(self.periods) > 2:
            return {"op": "drop", "args": {"p": rng.choice(sorted(self.periods))}}
        return None

    def _gen_inplace(self, actor, rng, op):
        s = self._pick_span(rng, actor)
        if s is None:
            return None
        return {"op": op, "args": {"s": s, "k": rng.choice([-7, -3, -2, -1, 1, 2, 3, 7, 0])}}

    def _gen_reverse(self, actor, rng):
        return self._gen_inplace(actor, rng, "reverse")

    def _gen_shift(self, actor, rng):
        return self._gen_inplace(actor, rng, "shift")

    def _gen_shift_start(self, actor, rng):
        return self._gen_inplace(actor, rng, "shift_start")

    def _gen_shift_end(self, actor, rng):
        return self._gen_inplace(actor, rng, "shift_end")

    def _gen_pure(self, actor, rng, op, concrete=False, **extra):
        s = self._pick_span(rng, actor, (lambda m: not m.contextual) if concrete else None)
        if s is None:
            return None
        a = {"s": s, "k": rng.choice([-7, -3, -2, -1, 1, 2, 3, 7, 0])}
        a.update(extra)
        return {"op": op, "out": [self._name("s")], "args": a}

    def _gen_add(self, actor, rng):
        return self._gen_pure(actor, rng, "add", radd=rng.random() < 0.4)

    def _gen_sub(self, actor, rng):
        return self._gen_pure(actor, rng, "sub")

    def _gen_restep(self, actor, rng):
        return self._gen_pure(actor, rng, "restep", newstep=rng.choice([1, 2, 3, 5]))

    def _gen_reversed(self, actor, rng):
        return self._gen_pure(actor, rng, "reversed")

    def _gen_copy(self, actor, rng):
        return self._gen_pure(actor, rng, "copy", how=rng.choice(["copy", "copy", "deepcopy", "pickle"]))

    def _gen_from_ends(self, actor, rng):
        s = self._pick_span(rng, actor, lambda m: not m.contextual)
        if s is None:
            return None
        f = self.spans[s][1].f
        o = self._pick_span(rng, actor, lambda m: not m.contextual and m.f == f)
        if o is None:
            return None
        which = rng.choice(["start_end", "end_start", "start_start"])
        m, om = self.spans[s][1], self.spans[o][1]
        sa = {"start_end": m.a, "end_start": m.b, "start_start": m.a}[which]
        sb = {"start_end": om.b, "end_start": om.a, "start_start": om.a}[which]
        if abs(sb - sa) > MAX_SPAN:
            return None
        return {"op": "from_ends", "out": [self._name("s")], "args": {"s": s, "o": o, "which": which, "step": rng.choice([1, -1, 2, -2])}}

    def _gen_pow(self, actor, rng):
        p = self._pick_period(rng)
        if p is None:
            return None
        return {"op": "pow", "out": [self._name("s")], "args": {"p": p, "n": rng.choice([-5, -3, -2, 2, 3, 6, 0])}}

    def _gen_resolve(self, actor, rng):
        s = self._pick_span(rng, actor, lambda m: m.contextual)
        if s is None:
            s = self._pick_span(rng, actor)
            if s is None:
                return None
        m = self.spans[s][1]
        f = m.f or rng.choice(self.cfg["freqs"])
        near = [x for x in (m.a, m.b) if isinstance(x, int)]
        a = (near[0] + rng.randint(-12, 12)) if near else self._rand_serial(rng, f)
        step = {"op": "resolve", "out": [self._name("s")], "args": {"s": s, "f": f, "cs": a, "ce": a + rng.randint(0, 9),
                                                                   "ctx": rng.choice(["context", "series"])}}
        if rng.random() < 0.3:
            # another live span as the context, open-ended ones included: what is open in the context stays open in the
            # result (offsets add up) and is settled by a later resolution against a closed context
            o = self._pick_span(rng, actor, lambda om: om.f is None or m.f is None or om.f == m.f)
            if o is not None and o != s:
                step["args"]["ctx"] = "span"
                step["args"]["o"] = o
        return step

    def _gen_resolve_mix(self, actor, rng):
        """A span with one concrete and one open end point resolved against a context of another frequency: must be rejected."""
        def half_open(m):
            return isinstance(m.a, (tuple, list)) != isinstance(m.b, (tuple, list))
        s = self._pick_span(rng, actor, half_open)
        if s is None:
            return None
        m = self.spans[s][1]
        g = rng.choice([x for x in cal.ALL_FREQS if x != m.f])
        a = self._rand_serial(rng, g)
        return {"op": "resolve_mix", "args": {"s": s, "g": g, "cs": a, "ce": a + rng.randint(0, 6), "ctx": rng.choice(["context", "series"])}}

    def _gen_distance(self, actor, rng):
        s = self._pick_span(rng, actor, lambda m: not m.contextual)
        if s is None:
            return None
        f = self.spans[s][1].f
        p = self._pick_period(rng, lambda m: m[0] == f)
        if p is None:
            return None
        # `period - span` is not exercised: Period.__sub__ never defers to Span.__rsub__ (TypeError), and C09 does not
        # speak about it
        return {"op": "distance", "args": {"s": s, "p": p, "r": False}}

    def _gen_iter_open(self, actor, rng):
        if len(self.iters) >= 2:
            return None
        s = self._pick_span(rng, actor, lambda m: not m.contextual)
        if s is None:
            return None
        return {"op": "iter_open", "out": [self._name("it")], "args": {"s": s, "how": "iter", "first": rng.choice([0, 1, 2])}}

    def _gen_iter_next(self, actor, rng):
        if not self.iters:
            return None
        return {"op": "iter_next", "args": {"it": rng.choice(sorted(self.iters)), "k": rng.choice([1, 1, 2, 3, 1000])}}

    def _gen_span_strings(self, actor, rng):
        s = self._pick_span(rng, actor, lambda m: not m.contextual and m.f != "I")
        if s is None:
            return None
        return {"op": "span_strings", "args": {"s": s, "position": rng.choice(["start", "middle", "end"])}}

    def _gen_index(self, actor, rng):
        s = self._pick_span(rng, actor, lambda m: not m.contextual and len(m.rng()) > 0)
        if s is None:
            return None
        n = len(self.spans[s][1].rng())
        return {"op": "index", "args": {"s": s, "i": rng.randrange(-n, n)}}

    def _gen_slice(self, actor, rng):
        s = self._pick_span(rng, actor, lambda m: not m.contextual)
        if s is None:
            return None
        return {"op": "slice", "args": {"s": s, "sl": [rng.choice([None, -3, -1, 0, 1, 2]), rng.choice([None, -2, 0, 1, 3, 8]), rng.choice([None, None, 1, 2, -1, -2])]}}

    def _gen_contains(self, actor, rng):
        s = self._pick_span(rng, actor, lambda m: not m.contextual)
        if s is None:
            return None
        f = self.spans[s][1].f
        p = self._pick_period(rng, lambda m: m[0] == f)
        if p is None:
            return None
        return {"op": "contains", "args": {"s": s, "p": p}}

    def _gen_eq(self, actor, rng):
        s = self._pick_span(rng, actor, lambda m: not m.contextual)
        if s is None:
            return None
        f = self.spans[s][1].f
        o = self._pick_span(rng, actor, lambda m: not m.contextual and m.f == f)
        if o is None:
            return None
        return {"op": "eq", "args": {"s": s, "o": o}}

    def _gen_encompassing(self, actor, rng):
        s = self._pick_span(rng, actor, lambda m: not m.contextual and m.step > 0 and len(m.rng()) > 0)
        if s is None:
            return None
        f = self.spans[s][1].f
        o = self._pick_span(rng, actor, lambda m: not m.contextual and m.f == f and m.step > 0 and len(m.rng()) > 0)
        if o is None:
            return None
        m, om = self.spans[s][1], self.spans[o][1]
        if max(m.b, om.b) - min(m.a, om.a) > MAX_SPAN:
            return None
        return {"op": "encompassing", "out": [self._name("s")], "args": {"s": s, "o": o}}

    def _gen_from_until(self, actor, rng):
        p = self._pick_period(rng)
        if p is None:
            return None
        f = self.periods[p][1][0]
        q = self._pick_period(rng, lambda m: m[0] == f)
        if q is None:
            return None
        if abs(self.periods[q][1][1] - self.periods[p][1][1]) > MAX_SPAN:
            return None
        return {"op": "from_until", "args": {"p": p, "q": q}}

    def _gen_p(self, actor, rng, op, same_freq_pair=False, **extra):
        p = self._pick_period(rng)
        if p is None:
            return None
        a = {"p": p}
        if same_freq_pair:
            f = self.periods[p][1][0]
            q = self._pick_period(rng, lambda m: m[0] == f)
            if q is None:
                return None
            a["q"] = q
        a.update(extra)
        return {"op": op, "args": a}

    def _gen_p_derive(self, actor, rng):
        """A period obtained from a live one (arithmetic, shift, an end point of a live span) joins the population."""
        if rng.random() < 0.35 and self.spans:
            s = self._pick_span(rng, actor, lambda m: not m.contextual)
            if s is not None:
                return {"op": "p_derive", "out": [self._name("p")], "args": {"s": s, "how": rng.choice(["span_start", "span_end", "span_item"])}}
        p = self._pick_period(rng)
        if p is None:
            return None
        return {"op": "p_derive", "out": [self._name("p")], "args": {"p": p, "ntype": rng.choice([None, None, None, "int64", "int32", "uint8", "uint16"]),
                                                                     "how": rng.choice(["add", "radd", "sub", "shift", "copy", "deepcopy", "pickle"]),
                                                                   "n": rng.choice([-13, -4, -1, 1, 2, 5, 12])}}

    def _gen_p_arith(self, actor, rng):
        return self._gen_p(actor, rng, "p_arith", same_freq_pair=True, n=rng.choice([-400, -53, -13, -5, -1, 0, 1, 4, 12, 366, 731]))

    def _gen_p_compare(self, actor, rng):
        return self._gen_p(actor, rng, "p_compare", same_freq_pair=True)

    def _gen_p_hash(self, actor, rng):
        return self._gen_p(actor, rng, "p_hash")

    def _gen_p_calendar(self, actor, rng):
        return self._gen_p(actor, rng, "p_calendar")

    def _gen_p_convert(self, actor, rng):
        return self._gen_p(actor, rng, "p_convert", g=rng.choice(["Y", "H", "Q", "M", "D"]), position=rng.choice(["start", "middle", "end"]),
                           day=rng.random())

    def _gen_p_keyword(self, actor, rng):
        return self._gen_p(actor, rng, "p_keyword", kw=rng.choice(["yoy", "soy", "eopy", "tty", "int"]), k=rng.choice([-5, -1, 1, 3]))

    def _gen_p_mix(self, actor, rng):
        p = self._pick_period(rng)
        if p is None:
            return None
        f = self.periods[p][1][0]
        g = rng.choice([x for x in cal.ALL_FREQS if x != f])
        return {"op": "p_mix", "args": {"p": p, "g": g, "serial": self._rand_serial(rng, g), "how": rng.choice(["lt", "eq", "sub", "span", "ge", "ne", "in_span", "span_sub"])}}

    def _gen_p_span_ops(self, actor, rng):
        step = self._gen_p(actor, rng, "p_span_ops", same_freq_pair=True)
        if step is not None and abs(self.periods[step["args"]["q"]][1][1] - self.periods[step["args"]["p"]][1][1]) > MAX_SPAN:
            return None
        return step

    # -- application ------------------------------------------------------------------------------
    def _apply(self, step):
        op = step["op"]
        self.stats["op." + op] += 1
        if op in MUTATING:
            self.mutating_steps += 1
        with warnings.catch_warnings():
            warnings.simplefilter("ignore")
            out = getattr(self, "_do_" + op)(step, step["args"])
        self.max_live = max(self.max_live, len(self.spans) + len(self.periods))
        self.stats["outcome." + out.split(":")[0]] += 1
        return out

    def _isolation(self, opname, exclude=()):
        for h, (real, m) in self.spans.items():
            if h in exclude:
                continue
            if span_snapshot(real) != self.snaps[h]:
                raise Violation("isolation", opname, "", "", f"span {h} (not the receiver) changed from {self.snaps[h]} to {span_snapshot(real)}", handles=(h,))
        for h, (real, m) in self.periods.items():
            if h in exclude:
                continue
            if (type(real).__name__, int(real.serial)) != self.snaps[h]:
                raise Violation("isolation", opname, "", "", f"period {h} changed from {self.snaps[h]} to {(type(real).__name__, int(real.serial))}", handles=(h,))

    def _guard(self, opname, pred, thunk):
        try:
            return thunk()
        except Exception as e:
            if isinstance(e, (Violation, HarnessError)):
                raise
            strip_traceback(e)
            raise Violation("crash", opname, pred, type(e).__name__, f"{type(e).__name__}: {str(e)[:160]}")

    def _check_span(self, opname, pred, real, m: SpanM, ctx):
        """Full agreement of one live span with its model.  Every observer used here is defined for a span the
        model holds, so an exception out of one (an unhashable end point, say) is a crash, not a harness error."""
        self._guard(opname, pred, lambda: self._check_span_body(opname, pred, real, m, ctx))

    def _check_span_body(self, opname, pred, real, m: SpanM, ctx):
        def bad(msg, klass="refine"):
            raise Violation(klass, opname, pred, "", f"{ctx}: {msg}")
        if not isinstance(real, ir.Span):
            bad(f"not a Span: {type(real).__name__}")
        if real.step != m.step:
            bad(f"step {real.step}, model {m.step}")
        if real.direction != ("forward" if m.step > 0 else "backward"):
            bad(f"direction {real.direction}")
        if bool(real.needs_resolve) != m.contextual:
            bad(f"needs_resolve {real.needs_resolve}, model contextual={m.contextual}")
        for label, end, mend in (("start", real.start, m.a), ("end", real.end, m.b)):
            if isinstance(mend, (tuple, list)):
                if ident(end) != ("ctx", ctx_str(mend)):
                    bad(f"{label} is {ident(end)}, model {ctx_str(mend)}")
            else:
                if getattr(end, "needs_resolve", False) or letter(end) != m.f or int(end.serial) != mend:
                    bad(f"{label} is {end!r}, model ({m.f},{mend})")
        if m.contextual:
            if real.__len__() is not None:
                bad("open-ended span reports a length")
            self.probes["contextual_span_checked"] += 1
            return
        r = m.rng()
        if len(real) != len(r):
            bad(f"len {len(real)}, model {len(r)}")
        got = [(letter(p), int(p.serial)) for p in real]
        want = [(m.f, x) for x in r]
        if got != want:
            bad(f"iterates {got[:5]}..., model {want[:5]}...")
        again = [(letter(p), int(p.serial)) for p in real]
        if again != got:
            bad("second iteration differs from the first")
        back = [(letter(p), int(p.serial)) for p in reversed(real)]
        if back != want[::-1]:
            bad(f"reversed(span) yields {back[:4]}..., the span enumerates {want[::-1][:4]}... backwards")
        for label, end, serial in (("start", real.start, m.a), ("end", real.end, m.b)):
            if hash(end) != hash(P(m.f, serial)):
                bad(f"{label} hashes differently from an equal, freshly built period")
        if len(r):
            for i in (0, -1, len(r) // 2):
                if int(real[i].serial) != r[i]:
                    bad(f"span[{i}] is serial {int(real[i].serial)}, model {r[i]}")
        if bool(real) is not True:
            bad("concrete span is falsy")
        if int(real.frequency) != cal.FREQ_VALUE[m.f]:
            bad(f"frequency {real.frequency}")
        if (m.b - m.a) % abs(m.step) != 0:
            self.probes["misaligned_span_checked"] += 1
        if len(r) == 0:
            self.probes["empty_span_checked"] += 1

    def _register_span(self, h, real, m, actor):
        self.spans[h] = (real, m)
        self.owner[h] = actor
        self.snaps[h] = span_snapshot(real)

    def _after(self, opname, pred, recv=None, new=None, step=None):
        """Check the receiver / the new span against the model, everybody else for isolation."""
        if recv is not None:
            real, m = self.spans[recv]
            self._check_span(opname, pred, real, m, f"receiver {recv}")
            self._isolation(opname, exclude=(recv,))
            self.snaps[recv] = span_snapshot(real)
            # shared end points: other spans were built from this span's periods
            for h, (o, om) in self.spans.items():
                if h != recv and (o.start is real.start or o.end is real.end or o.start is real.end or o.end is real.start):
                    self.probes["inplace_op_on_span_sharing_endpoints"] += 1
                    break
        elif new is not None:
            h, real, m = new
            self._check_span(opname, pred, real, m, f"result {h}")
            self._isolation(opname)
            for hh, (o, om) in self.spans.items():
                if o is real:
                    raise Violation("alias", opname, pred, "", f"result is the same object as live span {hh}")
            self._register_span(h, real, m, step.get("actor", "a0"))
        else:
            self._isolation(opname)
        # every live span still agrees with its model (cheap: spans are short)
        for h, (real, m) in self.spans.items():
            self._check_span(opname, pred, real, m, f"live span {h}")

    # -- span constructors ------------------------------------------------------------------------
    def _do_new_period(self, step, a):
        p = self._guard("new_period", a["f"], lambda: P(a["f"], a["serial"]))
        if letter(p) != a["f"] or int(p.serial) != a["serial"]:
            raise Violation("refine", "new_period", a["f"], "", "constructor")
        h = step["out"][0]
        self.periods[h] = (p, (a["f"], a["serial"]))
        self.owner[h] = step.get("actor", "a0")
        self.snaps[h] = (type(p).__name__, int(p.serial))
        self._after("new_period", a["f"])
        return "ok"

    def _do_new_span(self, step, a):
        f, sa, sb, st, ctor = a["f"], a["a"], a["b"], a["step"], a["ctor"]
        pa, pb = P(f, sa), P(f, sb)
        if ctor == "Span":
            thunk = lambda: ir.Span(pa, pb, st)
            m = SpanM(f, sa, sb, st)
        elif ctor == "rshift":
            thunk = lambda: pa >> pb
            m = SpanM(f, sa, sb, 1)
        elif ctor == "ellipsis":
            ya, ga = divmod(sa, cal.FREQ_VALUE[f])
            yb, gb = divmod(sb, cal.FREQ_VALUE[f])
            fn = {"Y": ir.yy, "H": ir.hh, "Q": ir.qq, "M": ir.mm}[f]
            if f == "Y":
                thunk = lambda: fn(ya, ..., yb)
            else:
                thunk = lambda: fn(ya, ga + 1, ..., yb, gb + 1)
            m = SpanM(f, sa, sb, 1)
        elif ctor == "lshift":
            # documented: end_per << start_per is Span(end_per, start_per, step=-1)
            thunk = lambda: pa << pb
            m = SpanM(f, sa, sb, -1)
        elif ctor == "op_open_start":
            # the operator forms of the open-ended spans: None >> p is Span(None, p, 1), None << p is Span(None, p, -1)
            d = 1 if st > 0 else -1
            thunk = (lambda: None >> pb) if d > 0 else (lambda: None << pb)
            m = SpanM(f, ("ctx", "start_date" if d > 0 else "end_date", 0), sb, d)
        elif ctor == "op_open_end":
            d = 1 if st > 0 else -1
            thunk = (lambda: pa >> None) if d > 0 else (lambda: pa << None)
            m = SpanM(f, sa, ("ctx", "end_date" if d > 0 else "start_date", 0), d)
        elif ctor == "open_start":
            thunk = lambda: ir.Span(None, pb, st)
            m = SpanM(f, ("ctx", "start_date" if st > 0 else "end_date", 0), sb, st)
        elif ctor == "open_end":
            thunk = lambda: ir.Span(pa, None, st)
            m = SpanM(f, sa, ("ctx", "end_date" if st > 0 else "start_date", 0), st)
        elif ctor == "open_both":
            thunk = lambda: ir.Span(None, None, st)
            m = SpanM(None, ("ctx", "start_date" if st > 0 else "end_date", 0), ("ctx", "end_date" if st > 0 else "start_date", 0), st)
        else:
            raise HarnessError(ctor)
        real = self._guard("new_span." + ctor, f, thunk)
        self._after("new_span." + ctor, f, new=(step["out"][0], real, m), step=step)
        return "ok"

    def _do_drop(self, step, a):
        self.retire([a.get("s") or a.get("p")])
        return "ok"

    # -- in-place mutators ------------------------------------------------------------------------
    def _inplace(self, step, a, name, apply_model, call):
        h = a["s"]
        real, m = self.spans[h]
        pred = ("contextual" if m.contextual else "concrete")
        if m.contextual:
            self.probes["contextual_span_mutated_before_resolve"] += 1
        self._guard(name, pred, lambda: call(real))
        apply_model(m)
        if self.iters:
            self._iter_note_mutation(h)
        if name == "shift_start" and not m.contextual and len(m.rng()) == 0:
            self.probes["span_emptied_by_shift_start"] += 1
        self._after(name, pred, recv=h)
        return "ok"

    def _do_reverse(self, step, a):
        def model(m):
            m.a, m.b, m.step = m.b, m.a, -m.step
        return self._inplace(step, a, "reverse", model, lambda s: s.reverse())

    def _do_shift(self, step, a):
        k = a["k"]

        def model(m):
            m.a, m.b = end_shift(m.a, k), end_shift(m.b, k)
        return self._inplace(step, a, "shift", model, lambda s: s.shift(k))

    def _do_shift_start(self, step, a):
        k = a["k"]

        def model(m):
            m.a = end_shift(m.a, k)
        return self._inplace(step, a, "shift_start", model, lambda s: s.shift_start(k))

    def _do_shift_end(self, step, a):
        k = a["k"]

        def model(m):
            m.b = end_shift(m.b, k)
        return self._inplace(step, a, "shift_end", model, lambda s: s.shift_end(k))

    # -- pure operations creating spans ---------------------------------------------------------------
    def _pure(self, step, a, name, model_of, call):
        h = a["s"]
        real, m = self.spans[h]
        pred = ("contextual" if m.contextual else "concrete")
        nm = model_of(m)
        if nm is None:
            return "skipped"
        res = self._guard(name, pred, lambda: call(real))
        self._after(name, pred, new=(step["out"][0], res, nm), step=step)
        return "ok"

    def _do_add(self, step, a):
        k = a["k"]
        return self._pure(step, a, "add", lambda m: SpanM(m.f, end_shift(m.a, k), end_shift(m.b, k), m.step),
                          (lambda s: k + s) if a.get("radd") else (lambda s: s + k))

    def _do_sub(self, step, a):
        k = a["k"]
        return self._pure(step, a, "sub", lambda m: SpanM(m.f, end_shift(m.a, -k), end_shift(m.b, -k), m.step), lambda s: s - k)

    def _do_restep(self, step, a):
        ns = a["newstep"]

        def model(m):
            return SpanM(m.f, m.a, m.b, ns if m.step > 0 else -ns)
        real, m = self.spans[a["s"]]
        return self._pure(step, a, "restep", model, (lambda s: s >> ns) if m.step > 0 else (lambda s: s << -ns))

    def _do_reversed(self, step, a):
        real, m = self.spans[a["s"]]
        out = self._pure(step, a, "reversed", lambda m: SpanM(m.f, m.b, m.a, -m.step), lambda s: s.reversed())
        if not m.contextual and (m.b - m.a) % abs(m.step) == 0:
            new = self.spans[step["out"][0]][0]
            if [int(p.serial) for p in new] != list(reversed([int(p.serial) for p in real])):
                raise Violation("refine", "reversed", "aligned", "", "reversed() of an aligned span does not enumerate the periods in reverse order")
        else:
            self.probes["reverse_of_misaligned_or_open_span"] += 1
        return out

    def _do_copy(self, step, a):
        # every way of duplicating a span gives an equal, independent one (the result joins the population, so later
        # in-place mutations of either side are watched by the isolation monitor)
        how = a.get("how", "copy")
        import copy as _cp
        import pickle as _pk
        call = {"copy": lambda s: s.copy(), "deepcopy": lambda s: _cp.deepcopy(s), "copy_module": lambda s: _cp.copy(s),
                "pickle": lambda s: _pk.loads(_pk.dumps(s))}[how]
        return self._pure(step, a, "copy" if how == "copy" else "copy." + how, lambda m: m.copy(), call)

    def _do_from_ends(self, step, a):
        real, m = self.spans[a["s"]]
        o, om = self.spans[a["o"]]
        which, st = a["which"], a["step"]
        pa, sa = {"start_end": (real.start, m.a), "end_start": (real.end, m.b), "start_start": (real.start, m.a)}[which]
        pb, sb = {"start_end": (o.end, om.b), "end_start": (o.start, om.a), "start_start": (o.start, om.a)}[which]
        nm = SpanM(m.f, sa, sb, st)
        res = self._guard("from_ends", "", lambda: ir.Span(pa, pb, st))
        self._after("from_ends", "", new=(step["out"][0], res, nm), step=step)
        self.probes["span_built_from_other_spans_endpoints"] += 1
        return "ok"

    def _do_pow(self, step, a):
        p, (f, s) = self.periods[a["p"]]
        n = a["n"]
        if n in (0, 1, -1):
            # documented special cases: p**0 is the empty span object, p**1 / p**-1 the period itself
            res = self._guard("pow", "degenerate", lambda: p ** n)
            if n == 0:
                # the empty span is a process-wide singleton: nothing done to it may make it (or the next p**0) non-empty
                def poke():
                    res.shift(3)
                    return len(res), list(res), len(p ** 0), list(p ** 0)
                got = self._guard("pow", "degenerate", poke)
                if got != (0, [], 0, []):
                    raise Violation("refine", "pow", "degenerate", "", f"the empty span p**0 is not empty after being shifted: {got}")
                self.probes["empty_span_singleton_poked"] += 1
            elif not (letter(res) == f and int(res.serial) == s):
                raise Violation("refine", "pow", "degenerate", "", "p**1 / p**-1 is not the period itself")
            self._after("pow", "degenerate")
            return "ok"
        nm = SpanM(f, s, s + n - sign(n), sign(n))
        res = self._guard("pow", "", lambda: p ** n)
        self._after("pow", "", new=(step["out"][0], res, nm), step=step)
        return "ok"

    def _do_resolve(self, step, a):
        real, m = self.spans[a["s"]]
        f = m.f or a["f"]
        if m.f is not None and m.f != a["f"]:
            f = m.f
        cs, ce = a["cs"], a["ce"]
        if a["ctx"] == "span":
            o, om = self.spans[a["o"]]
            if m.f is not None and om.f is not None and m.f != om.f:
                return "skipped"

            def via(x):
                if isinstance(x, (tuple, list)):
                    return end_shift(om.a if x[1] == "start_date" else om.b, x[2])
                return x
            nm = SpanM(m.f or om.f, via(m.a), via(m.b), m.step)
            if not nm.contextual and len(nm.rng()) > MAX_SPAN:
                return "skipped"        # end points from unrelated corners of the calendar: a span of millions of periods
            pred = ("contextual" if m.contextual else "concrete") + (",open_context" if om.contextual else "")
            res = self._guard("resolve.span", pred, lambda: real.resolve(o))
            self._after("resolve.span", pred, new=(step["out"][0], res, nm), step=step)
            if m.contextual and om.contextual:
                self.probes["open_span_resolved_against_open_context"] += 1
            return "ok"
        if a["ctx"] == "context":
            from irispie.dates import ResolutionContext
            ctx = ResolutionContext(P(f, cs), P(f, ce))
        else:
            n = ce - cs + 1
            ctx = ir.Series(start=P(f, cs), values=tuple(float(i + 1) for i in range(n)))

        def res_end(x):
            if isinstance(x, (tuple, list)):
                return (cs if x[1] == "start_date" else ce) + x[2]
            return x
        nm = SpanM(f, res_end(m.a), res_end(m.b), m.step)
        pred = "contextual" if m.contextual else "concrete"
        res = self._guard("resolve." + a["ctx"], pred, lambda: real.resolve(ctx))
        self._after("resolve." + a["ctx"], pred, new=(step["out"][0], res, nm), step=step)
        if m.contextual:
            self.probes["open_span_resolved"] += 1
        return "ok"

    def _do_resolve_mix(self, step, a):
        real, m = self.spans[a["s"]]
        g, cs, ce = a["g"], a["cs"], a["ce"]
        if a["ctx"] == "context":
            from irispie.dates import ResolutionContext
            ctx = ResolutionContext(P(g, cs), P(g, ce))
        else:
            ctx = ir.Series(start=P(g, cs), values=tuple(float(i + 1) for i in range(ce - cs + 1)))
        try:
            res = real.resolve(ctx)
        except Exception as e:
            strip_traceback(e)
            self.probes["mixed_frequency_rejected"] += 1
            self._after("resolve_mix." + a["ctx"], "")
            return "rejected:" + type(e).__name__
        raise Violation("mixfreq_not_rejected", "resolve_mix." + a["ctx"], m.f + g, "",
                        f"a span with a {m.f} end point was resolved against a {g} context without an error (result {res!r})")

    def _do_encompassing(self, step, a):
        real, m = self.spans[a["s"]]
        o, om = self.spans[a["o"]]
        # Span.encompassing goes by the declared end points of (forward) spans; for a span whose end is not on
        # its step grid this is a superset of the enumerated periods, which still encompasses them
        lo = min(m.a, om.a)
        hi = max(m.b, om.b)
        nm = SpanM(m.f, lo, hi, 1)
        res = self._guard("encompassing", "", lambda: ir.Span.encompassing(real, o))
        self._after("encompassing", "", new=(step["out"][0], res, nm), step=step)
        return "ok"

    # -- observers --------------------------------------------------------------------------------
    def _do_distance(self, step, a):
        real, m = self.spans[a["s"]]
        p, (f, s) = self.periods[a["p"]]
        r = m.rng()
        if a["r"]:
            got = self._guard("distance.rsub", "", lambda: list(p - real))
            want = [s - x for x in r]
            name = "distance.rsub"
        else:
            got = self._guard("distance.sub", "", lambda: list(real - p))
            want = [x - s for x in r]
            name = "distance.sub"
        if got != want:
            raise Violation("refine", name, "aligned" if (m.b - m.a) % abs(m.step) == 0 else "misaligned", "",
                            f"distances of the span's periods from the period are {want}, got {got} (span has {len(r)} periods)")
        self._after(name, "")
        return "ok"

    # -- iteration as an operation with a beginning and an end --------------------------------------
    # An iterator over a span is an operation in flight: other steps (in-place mutations of the same span included) run
    # between its first and its last `next`.  What it yields must be the enumeration of the span in ONE of the states the
    # span had while the iteration was alive (the linearizability reading of "iteration agrees with the span"): a mix of
    # two states - periods skipped or repeated, an IndexError half way - agrees with none.
    def _do_iter_open(self, step, a):
        real, m = self.spans[a["s"]]
        how = a.get("how", "iter")
        if how == "reversed_builtin":
            # not generated: Span has no __reversed__, so the builtin walks it through the sequence protocol, reading the
            # live span at every step exactly as it does for a list - that is Python's contract, not the library's
            it = self._guard("iter_open.reversed", "", lambda: iter(reversed(real)))
            states = [list(reversed(m.rng()))]
        else:
            it = self._guard("iter_open", "", lambda: iter(real))
            states = [list(m.rng())]
        h = step["out"][0]
        self.iters[h] = {"it": it, "span": a["s"], "states": states, "got": [], "reversed": how == "reversed_builtin"}
        self.probes["iteration_opened"] += 1
        if a.get("first"):
            self._iter_pull(h, a["first"], "iter_open")
        self._after("iter_open", "")
        return "ok"

    def _do_iter_next(self, step, a):
        self._iter_pull(a["it"], a["k"], "iter_next")
        self._after("iter_next", "")
        return "ok"

    def _iter_note_mutation(self, h):
        """Span h was mutated in place: every iteration in flight over it may from now on reflect the new state too."""
        real, m = self.spans[h]
        for info in self.iters.values():
            if info["span"] == h and not m.contextual:
                r = list(m.rng())
                info["states"].append(list(reversed(r)) if info["reversed"] else r)
                self.probes["span_mutated_under_live_iteration"] += 1

    def _iter_pull(self, h, k, opname):
        info = self.iters[h]
        done = False
        for _ in range(k):
            try:
                p = next(info["it"])
            except StopIteration:
                done = True
                break
            except Exception as e:
                strip_traceback(e)
                self.iters.pop(h, None)
                raise Violation("crash", opname, "mutated" if len(info["states"]) > 1 else "", type(e).__name__,
                                f"an iteration in flight raised {type(e).__name__}: {str(e)[:120]} after yielding {len(info['got'])} periods")
            info["got"].append(int(p.serial))
        got = info["got"]
        pred = "mutated" if len(info["states"]) > 1 else ""
        if done:
            self.iters.pop(h, None)
            if not any(got == st for st in info["states"]):
                raise Violation("refine", opname, pred, "", f"a completed iteration yielded serials {got[:8]}{'...' if len(got) > 8 else ''} ({len(got)} periods); "
                                f"the span enumerated {[st[:4] for st in info['states'][:3]]} in the states it had meanwhile")
            if len(info["states"]) > 1:
                self.probes["iteration_completed_across_mutation"] += 1
        elif not any(got == st[:len(got)] for st in info["states"]):
            self.iters.pop(h, None)
            raise Violation("refine", opname, pred, "", f"an iteration in flight has yielded serials {got[:8]}, a prefix of none of the states {[st[:4] for st in info['states'][:3]]} the span had meanwhile")

    def _do_span_strings(self, step, a):
        """The span-level string/date converters enumerate exactly the span, and reading the strings back gives its periods."""
        real, m = self.spans[a["s"]]
        r = list(m.rng())
        if any(not cal.valid_serial(m.f, x) for x in r[:1] + r[-1:]):
            return "skipped"
        import irispie.dates as irdates
        F = ir.Frequency(cal.FREQ_VALUE[m.f])
        kw = {} if m.f == "D" else {"position": a["position"]}

        def back(periods):
            return [(letter(q), int(q.serial)) for q in periods]
        want = [(m.f, x) for x in r]

        def thunk():
            bad = []
            sd = real.to_sdmx_strings()
            if len(sd) != len(r) or len(set(sd)) != len(set(r)):
                bad.append(f"to_sdmx_strings gives {len(sd)} strings ({len(set(sd))} distinct) for {len(r)} periods")
            if back(irdates.periods_from_sdmx_strings(sd, F)) != want:
                bad.append("periods_from_sdmx_strings(to_sdmx_strings(), frequency) is not the span")
            if r and back(irdates.periods_from_sdmx_strings(sd)) != want:
                bad.append("periods_from_sdmx_strings(to_sdmx_strings()) with the frequency inferred is not the span")
            iso = real.to_iso_strings(**kw)
            if back(irdates.periods_from_iso_strings(iso, frequency=F)) != want:
                bad.append(f"periods_from_iso_strings(to_iso_strings({a['position']})) is not the span")
            pyd = real.to_python_dates(**kw)
            if [d.isoformat() for d in pyd] != list(iso):
                bad.append("to_python_dates and to_iso_strings disagree")
            if back(irdates.periods_from_python_dates(pyd, frequency=F)) != want:
                bad.append("periods_from_python_dates(to_python_dates()) is not the span")
            if r and list(irdates.period_indexes(real, real.start)) != [x - r[0] for x in r]:
                bad.append("period_indexes relative to the start")
            return bad
        bad = self._guard("span_strings", m.f, thunk)
        if bad:
            raise Violation("refine", "span_strings", m.f, "", f"span of {len(r)} periods from serial {m.a}: {bad[:3]}")
        self._after("span_strings", m.f)
        return "ok"

    def _do_index(self, step, a):
        real, m = self.spans[a["s"]]
        r = m.rng()
        i = a["i"]
        if not (-len(r) <= i < len(r)):
            return "skipped"
        got = self._guard("index", "", lambda: real[i])
        if letter(got) != m.f or int(got.serial) != r[i]:
            raise Violation("refine", "index", "", "", f"span[{i}] is {got!r}, iteration gives serial {r[i]}")
        self._after("index", "")
        return "ok"

    def _do_slice(self, step, a):
        real, m = self.spans[a["s"]]
        sl = slice(*a["sl"])
        r = list(m.rng())
        got = self._guard("slice", "", lambda: [int(p.serial) for p in real[sl]])
        want = r[sl]
        pred = "negative_slice_step" if (sl.step or 1) < 0 else "positive_slice_step"
        if got != want:
            raise Violation("refine", "slice", pred, "", f"span[{a['sl']}] gives serials {got}, list(span)[slice] gives {want}")
        self._after("slice", pred)
        return "ok"

    def _do_contains(self, step, a):
        real, m = self.spans[a["s"]]
        p, (f, s) = self.periods[a["p"]]
        got = self._guard("contains", "", lambda: p in real)
        if bool(got) != (s in m.rng()):
            raise Violation("refine", "contains", "", "", f"`period in span` is {got}, model {s in m.rng()}")
        self._after("contains", "")
        return "ok"

    def _do_eq(self, step, a):
        real, m = self.spans[a["s"]]
        o, om = self.spans[a["o"]]
        got = self._guard("eq", "", lambda: real == o)
        want = (m.a, m.b, m.step) == (om.a, om.b, om.step)
        if bool(got) != want:
            raise Violation("refine", "eq", "", "", f"span == span is {got}, model {want}")
        self._after("eq", "")
        return "ok"

    def _do_from_until(self, step, a):
        p, (f, s) = self.periods[a["p"]]
        q, (g, t) = self.periods[a["q"]]
        got = self._guard("from_until", "", lambda: [int(x.serial) for x in ir.periods_from_until(p, q)])
        if got != list(range(s, t + 1)):
            raise Violation("refine", "from_until", "", "", f"periods_from_until gives {got[:5]}, expected range({s},{t + 1})")
        self._after("from_until", "")
        return "ok"

    # -- period operations ------------------------------------------------------------------------
    def _do_p_derive(self, step, a):
        how = a["how"]
        if "s" in a:
            real, m = self.spans[a["s"]]
            r = m.rng()
            if how == "span_start":
                q, want = self._guard("p_derive." + how, m.f, lambda: real.start), m.a
            elif how == "span_end":
                q, want = self._guard("p_derive." + how, m.f, lambda: real.end), m.b
            else:
                if not len(r):
                    return "skipped"
                q, want = self._guard("p_derive." + how, m.f, lambda: real[len(r) // 2]), r[len(r) // 2]
            f = m.f
        else:
            p, (f, s) = self.periods[a["p"]]
            n = a["n"]
            if not cal.valid_serial(f, s + n) or not cal.valid_serial(f, s - n):
                return "skipped"
            if a.get("ntype") and (n >= 0 or not a["ntype"].startswith("uint")):
                # the offset as a NumPy integer (an element of an integer array): the same number
                import numpy as _np
                n0 = n
                n = getattr(_np, a["ntype"])(n)
                self.probes["numpy_integer_offset"] += 1
                if how == "radd":
                    how = "add"        # a NumPy scalar on the left decides the operation itself
            table = {"add": (lambda: p + n, s + int(n)), "radd": (lambda: n + p, s + int(n)), "sub": (lambda: p - n, s - int(n)),
                     "shift": (lambda: p.shift(n), s + int(n)), "copy": (lambda: p.copy(), s),
                     "deepcopy": (lambda: __import__("copy").deepcopy(p), s),
                     "pickle": (lambda: __import__("pickle").loads(__import__("pickle").dumps(p)), s)}
            thunk, want = table[how]
            q = self._guard("p_derive." + how, f, thunk)
        if letter(q) != f or int(q.serial) != want:
            raise Violation("refine", "p_derive." + how, f, "", f"derived period is {q!r}, expected serial {want}")
        twin = P(f, want)
        if hash(q) != hash(twin) or not (q == twin) or len({q, twin}) != 1:
            raise Violation("refine", "p_derive." + how, f, "", f"a period obtained by `{how}` is equal to a freshly built {twin!r} but hashes differently (or is not equal)")
        h = step["out"][0]
        self.periods[h] = (q, (f, want))
        self.owner[h] = step.get("actor", "a0")
        self.snaps[h] = (type(q).__name__, int(q.serial))
        self._after("p_derive." + how, f)
        return "ok"

    def _do_p_arith(self, step, a):
        p, (f, s) = self.periods[a["p"]]
        q, (g, t) = self.periods[a["q"]]
        n = a["n"]
        if not cal.valid_serial(f, s + n) or not cal.valid_serial(f, s - n):
            return "skipped"

        def thunk():
            bad = []
            if int((p + n).serial) != s + n or letter(p + n) != f:
                bad.append("p+n")
            if int((n + p).serial) != s + n:
                bad.append("n+p")
            if int((p - n).serial) != s - n:
                bad.append("p-n")
            if ((p + n) - p) != n:
                bad.append("(p+n)-p")
            if (q - p) != t - s:
                bad.append("q-p")
            if not (p + (q - p) == q):
                bad.append("p+(q-p)==q")
            return bad
        bad = self._guard("p_arith", f, thunk)
        if bad:
            raise Violation("refine", "p_arith", f, "", f"period arithmetic identities failed: {bad} for serial {s}, offset {n}")
        self._after("p_arith", f)
        return "ok"

    def _do_p_compare(self, step, a):
        p, (f, s) = self.periods[a["p"]]
        q, (g, t) = self.periods[a["q"]]

        def thunk():
            return [(p < q), (p <= q), (p == q), (p != q), (p > q), (p >= q)]
        got = self._guard("p_compare", f, thunk)
        want = [s < t, s <= t, s == t, s != t, s > t, s >= t]
        if [bool(x) for x in got] != want:
            raise Violation("refine", "p_compare", f, "", f"comparisons {got} disagree with serial order {want}")
        self._after("p_compare", f)
        return "ok"

    def _do_p_hash(self, step, a):
        p, (f, s) = self.periods[a["p"]]

        def thunk():
            twin = P(f, s)
            d = {}
            for h, (x, _) in self.periods.items():
                d[x] = h
            ok_hash = hash(p) == hash(twin) and all(hash(x) == hash(P(*mm)) for x, mm in self.periods.values())
            ok_lookup = twin in d and self.periods[d[twin]][1] == (f, s)
            ok_set = len({p, twin}) == 1
            other = P(f, s + 1)
            return ok_hash, ok_lookup, ok_set, (other in d) == any(m == (f, s + 1) for _, m in self.periods.values())
        try:
            res = thunk()
        except IrisPieError as e:
            # two live periods of different frequencies with equal hashes: equality between them is rejected
            strip_traceback(e)
            self.probes["dict_of_mixed_frequency_periods_rejected"] += 1
            self._after("p_hash", f)
            return "rejected"
        if len({m[0] for _, m in self.periods.values()}) > 1:
            self.probes["period_dict_key_across_frequencies"] += 1
        if not all(res):
            raise Violation("refine", "p_hash", f, "", f"hash/equality/dict lookup disagree: {res}")
        self._after("p_hash", f)
        return "ok"

    def _do_p_calendar(self, step, a):
        p, (f, s) = self.periods[a["p"]]
        if f == "I":
            self._after("p_calendar", f)
            return "skipped"
        if not cal.valid_serial(f, s + 1) or not cal.valid_serial(f, s - 1):
            return "skipped"

        def thunk():
            bad = []
            y, seg = cal.year_of(f, s), cal.segment_of(f, s)
            if p.year != y:
                bad.append(f"year {p.year} vs {y}")
            if p.segment != seg:
                bad.append(f"segment {p.segment} vs {seg}")
            if tuple(p.to_year_segment()) != (y, seg):
                bad.append(f"to_year_segment {p.to_year_segment()}")
            ys = cal.ymd_start(f, s)
            ye = cal.ymd_end(f, s)
            if f == "D":
                if dt.date(*p.to_ymd()) != ys:
                    bad.append("to_ymd")
                nxt = dt.date(*(p + 1).to_ymd())
            else:
                if dt.date(*p.to_ymd(position="start")) != ys:
                    bad.append(f"to_ymd(start) {p.to_ymd(position='start')} vs {ys}")
                if dt.date(*p.to_ymd(position="end")) != ye:
                    bad.append(f"to_ymd(end) {p.to_ymd(position='end')} vs {ye}")
                mid = dt.date(*p.to_ymd(position="middle"))
                if not (ys <= mid <= ye):
                    bad.append(f"to_ymd(middle) {mid} outside the period")
                nxt = dt.date(*(p + 1).to_ymd(position="start"))
            if ye + dt.timedelta(days=1) != nxt:
                bad.append(f"tiling: period ends {ye}, next starts {nxt}")
            if int(p.create_soy().serial) != cal.soy(f, s):
                bad.append("create_soy")
            if int(p.create_eoy().serial) != cal.eoy(f, s):
                bad.append("create_eoy")
            if int(p.create_eopy().serial) != cal.eopy(f, s):
                bad.append("create_eopy")
            t = p.create_tty()
            if (None if t is None else int(t.serial)) != cal.tty(f, s):
                bad.append("create_tty")
            if int(type(p).from_year_segment(y, seg).serial) != s:
                bad.append("from_year_segment")
            return bad
        bad = self._guard("p_calendar", f, thunk)
        if f == "D":
            d = dt.date.fromordinal(s)
            if (d.month, d.day) in ((2, 29), (12, 31), (1, 1)):
                self.probes["daily_period_on_leap_day_or_year_edge"] += 1
        if bad:
            raise Violation("refine", "p_calendar", f, "", f"calendar observers of serial {s}: {bad}")
        self._after("p_calendar", f)
        return "ok"

    def _do_p_convert(self, step, a):
        """Conversions between periods, calendar days, strings and other frequencies agree with the independent calendar."""
        p, (f, s) = self.periods[a["p"]]
        if f == "I" or not cal.valid_serial(f, s + 1) or not cal.valid_serial(f, s - 1):
            self._after("p_convert", f)
            return "skipped"
        g, position = a["g"], a["position"]
        F = ir.Frequency(cal.FREQ_VALUE[f])
        G = ir.Frequency(cal.FREQ_VALUE[g])
        ys, ye = cal.ymd_start(f, s), cal.ymd_end(f, s)
        inside = ys + dt.timedelta(days=int(a["day"] * ((ye - ys).days + 1)) % ((ye - ys).days + 1))

        def thunk():
            bad = []
            kw = {} if f == "D" else {"position": position}
            d = dt.date(*p.to_ymd(**kw))
            if not (ys <= d <= ye) or (position == "start" and d != ys) or (position == "end" and d != ye):
                bad.append(f"to_ymd({position}) {d}")
            if p.to_python_date(**kw) != d:
                bad.append(f"to_python_date({position}) {p.to_python_date(**kw)} vs to_ymd {d}")
            if p.to_iso_string(**kw) != d.isoformat():
                bad.append(f"to_iso_string({position}) {p.to_iso_string(**kw)!r} vs {d.isoformat()!r}")
            # every calendar day inside the period maps back to the period, by date object and by ISO string
            for day in (ys, ye, inside):
                q = ir.Period.from_python_date(day, frequency=F)
                if letter(q) != f or int(q.serial) != s:
                    bad.append(f"from_python_date({day}) gives {q!r}")
                q = ir.Period.from_iso_string(day.isoformat(), frequency=F)
                if letter(q) != f or int(q.serial) != s:
                    bad.append(f"from_iso_string({day.isoformat()}) gives {q!r}")
                q = ir.Period.from_ymd(F, day.year, day.month, day.day)
                if letter(q) != f or int(q.serial) != s:
                    bad.append(f"from_ymd{(day.year, day.month, day.day)} gives {q!r}")
            # the SDMX string names the period uniquely, with and without the frequency given
            sd = p.to_sdmx_string()
            for q in (ir.Period.from_sdmx_string(sd, F), ir.Period.from_sdmx_string(sd)):
                if letter(q) != f or int(q.serial) != s:
                    bad.append(f"from_sdmx_string({sd!r}) gives {q!r}")
            # conversion to another frequency lands on the period that contains the chosen day
            want = cal.containing(g, d)
            for name in ("refrequent", "convert", "convert_to_new_freq"):
                q = getattr(p, name)(G, **kw)
                if letter(q) != g or int(q.serial) != want:
                    bad.append(f"{name}({g}, {position}) gives {q!r}, the period containing {d} is serial {want}")
            q = p.to_daily(**kw)
            if letter(q) != "D" or int(q.serial) != d.toordinal():
                bad.append(f"to_daily({position}) gives {q!r}")
            if p.get_year() != cal.year_of(f, s):
                bad.append("get_year")
            if f == "D":
                if int(p.create_som().serial) != dt.date(ys.year, ys.month, 1).toordinal():
                    bad.append("create_som")
                if int(p.create_eopm().serial) != dt.date(ys.year, ys.month, 1).toordinal() - 1:
                    bad.append("create_eopm")
            return bad
        bad = self._guard("p_convert", f, thunk)
        if g != f:
            self.probes["period_converted_to_other_frequency"] += 1
        if bad:
            raise Violation("refine", "p_convert", f, "", f"conversions of serial {s} ({position}, to {g}): {bad[:4]}")
        self._after("p_convert", f)
        return "ok"

    def _do_p_keyword(self, step, a):
        p, (f, s) = self.periods[a["p"]]
        kw = a["kw"]
        if kw == "int":
            k = a["k"]
            got = self._guard("p_keyword.int", f, lambda: p.shift(k))
            if int(got.serial) != s + k:
                raise Violation("refine", "p_keyword.int", f, "", f"shift({k}) of serial {s} gives {int(got.serial)}")
            self._after("p_keyword.int", f)
            return "ok"
        if f == "I":
            return "skipped"
        if not cal.valid_serial(f, s - 400):
            return "skipped"
        want = {"yoy": cal.yoy, "soy": cal.soy, "eopy": cal.eopy, "tty": cal.tty}[kw](f, s)
        got = self._guard("p_keyword." + kw, f, lambda: p.shift(kw))
        gs = None if got is None else int(got.serial)
        if gs != want or (got is not None and letter(got) != f):
            raise Violation("refine", "p_keyword." + kw, f, "", f"shift({kw!r}) of serial {s} lands on {gs}, documented period is {want}")
        self._after("p_keyword." + kw, f)
        return "ok"

    def _do_p_mix(self, step, a):
        p, (f, s) = self.periods[a["p"]]
        q = P(a["g"], a["serial"])
        how = a["how"]
        thunks = {
            "lt": lambda: p < q, "eq": lambda: p == q, "ge": lambda: p >= q, "ne": lambda: p != q, "sub": lambda: p - q,
            "span": lambda: ir.Span(p, q), "in_span": lambda: q in ir.Span(p, p + 3), "span_sub": lambda: ir.Span(p, p + 3) - q,
        }
        try:
            res = thunks[how]()
        except Exception as e:
            strip_traceback(e)
            self.probes["mixed_frequency_rejected"] += 1
            self._after("p_mix." + how, "")
            return "rejected:" + type(e).__name__
        raise Violation("mixfreq_not_rejected", "p_mix." + how, f + a["g"], "", f"periods of frequencies {f} and {a['g']} were combined by `{how}` without an error (result {res!r})")

    def _do_p_span_ops(self, step, a):
        p, (f, s) = self.periods[a["p"]]
        q, (g, t) = self.periods[a["q"]]

        def thunk():
            sp = p >> q
            return [int(x.serial) for x in sp], len(sp)
        got, n = self._guard("p_span_ops", f, thunk)
        if got != list(range(s, t + 1)) or n != len(got):
            raise Violation("refine", "p_span_ops", f, "", f"p >> q enumerates {got[:5]} (len {n}), expected range({s},{t + 1})")
        self._after("p_span_ops", f)
        return "ok"
