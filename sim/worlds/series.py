"""
World `series` (property C10): several live Series handles, a dict model twin for each, operations
issued by seeded actors on own and foreign handles, refinement + isolation + alias oracles after every
step.  No I/O seam exists on these paths, so the fault space is empty; the schedule space is the
interleaving of whole public operations across handles that may share numpy buffers.
"""

from __future__ import annotations

import math
import warnings

import numpy as np

from ..kit import cal
from ..kit.core import World, Violation, HarnessError, canon, sha1, strip_traceback
from . import series_model as sm
from .series_model import SM, Exp

FREQ_ENUM = None
PC = None
ir = None


def _lazy():
    global ir, PC, FREQ_ENUM
    if ir is None:
        import irispie as _ir
        from irispie.dates import PERIOD_CLASS_FROM_FREQUENCY_RESOLUTION as _PC, Frequency as _F
        ir = _ir
        PC = _PC
        FREQ_ENUM = _F
    return ir


def P(freq: str, serial: int):
    _lazy()
    return PC[FREQ_ENUM(cal.FREQ_VALUE[freq])](int(serial))


def freq_letter_of(period) -> str:
    v = int(period.frequency)
    for k, x in cal.FREQ_VALUE.items():
        if x == v:
            return k
    raise HarnessError(f"unknown frequency {period.frequency}")


def nan_list(a):
    a = np.asarray(a, dtype=float)
    return [[None if math.isnan(x) else float(x) for x in row] for row in a.reshape(a.shape[0], -1)]


def from_nan_list(v, nv=None):
    a = np.array([[np.nan if x is None else x for x in row] for row in v], dtype=float)
    if nv is not None:
        a = a.reshape(-1, nv)
    return a


VALUE_POOL = (0.0, 1.0, 2.0, 3.0, -1.0, -2.5, 0.5, 4.0, 7.25, 9.0, 1.5, -3.0, 10.0, 0.25)

BASES = {
    "Y": lambda r: r.randint(1995, 2030),
    "H": lambda r: 2 * r.randint(1995, 2030) + r.randint(0, 1),
    "Q": lambda r: 4 * r.randint(1995, 2030) + r.randint(0, 3),
    "M": lambda r: 12 * r.randint(1995, 2030) + r.randint(0, 11),
    "D": lambda r: __import__("datetime").date(r.choice([1999, 2000, 2019, 2020, 2021, 2024]), r.choice([1, 2, 3, 6, 12, 12, 12, 1]), r.randint(1, 28)).toordinal() + r.randint(-3, 3),
    "I": lambda r: r.randint(-10, 20),
}

# op kind -> default weight
OP_WEIGHTS = {
    "new": 3, "drop": 1, "set": 14, "read": 6, "call": 3, "shift": 6, "clip": 4, "lay": 8, "elem": 5,
    "stat": 3, "stat0": 1, "mov": 3, "fill": 4, "extrap": 2, "nvar": 2, "change": 3, "binop": 9,
    "scalarop": 4, "unary": 3, "hstack": 4, "ishift": 2, "copy": 3, "replace_where": 2, "mixfreq": 2,
    "describe": 1, "apply": 2, "new_shared": 2, "achange": 2, "convert": 2, "cum": 2, "restart": 2, "shape": 3,
    "iter_open": 1, "iter_next": 2, "scribble": 2,
}

MUTATING = {"set", "shift", "clip", "lay", "elem", "stat", "mov", "fill", "extrap", "nvar", "change",
            "replace_where", "describe", "achange", "convert", "cum", "restart", "shape"}


class Obj:
    __slots__ = ("real", "model", "owner")

    def __init__(self, real, model, owner):
        self.real = real
        self.model = model
        self.owner = owner


def snapshot(s):
    st = s.start
    return (
        None if st is None else (type(st).__name__, int(st.serial)),
        tuple(s.data.shape), str(s.data.dtype), s.data.tobytes(), s.get_description(),
        canon(s.metadata) if isinstance(s.metadata, dict) else repr(type(s.metadata)),
    )


def model_from_real(s, desc=None) -> SM:
    """Adopt a verified real object as the new model state (prevents float drift between twins)."""
    nv = s.data.shape[1]
    if s.start is None:
        return SM(None, nv, None, None, 0, s.get_description())
    f = freq_letter_of(s.start)
    lo = int(s.start.serial)
    n = s.data.shape[0]
    m = SM(f, nv, {lo + i: s.data[i] for i in range(n)}, lo, n, s.get_description())
    return m


def conforms(real, exp: Exp, ctx: str):
    """Return None or (violation class, message)."""
    d = real.data
    if d.ndim != 2:
        return ("refine", f"{ctx}: data is not 2-D: shape {d.shape}")
    if d.shape[1] != exp.nv:
        return ("refine", f"{ctx}: {d.shape[1]} variants, model has {exp.nv}")
    sp = exp.span()
    if real.start is None:
        if d.shape[0] and not np.all(np.isnan(d)):
            return ("cover", f"{ctx}: series has values but no start")
        if sp is not None:
            return ("refine", f"{ctx}: series is empty, model has values on serials {sp}")
        return None
    lo = int(real.start.serial)
    n = d.shape[0]
    hi = lo + n - 1
    if exp.freq is not None and sp is not None:
        got = freq_letter_of(real.start)
        if got != exp.freq:
            return ("refine", f"{ctx}: frequency {got}, model {exp.freq}")
    try:
        end = real.end
        if end is None or int(end.serial) != hi:
            return ("cover", f"{ctx}: end {end} inconsistent with start {real.start} and {n} rows")
    except Violation:
        raise
    # the span observers derive from start and rows; read after every operation they also expose a memo of an earlier
    # span that an in-place operation forgot to drop
    if n > 200000:
        return ("refine", f"{ctx}: the series reports {n} periods from serial {lo}: no history of this world makes one that long")
    per = real.periods
    if len(per) != n or real.num_periods != n or (n and (int(per[0].serial) != lo or int(per[-1].serial) != hi)):
        return ("cover", f"{ctx}: periods/num_periods report {len(per)} periods" + (f" on serials [{int(per[0].serial)},{int(per[-1].serial)}]" if len(per) else "") + f", start and rows give [{lo},{hi}]")
    if sp is not None and (lo > sp[0] or hi < sp[1]):
        return ("cover", f"{ctx}: reported span serials [{lo},{hi}] does not cover values on [{sp[0]},{sp[1]}]")
    a = min(lo, sp[0]) if sp else lo
    b = max(hi, sp[1]) if sp else hi
    for t in range(a, b + 1):
        rv = d[t - lo] if lo <= t <= hi else np.full(exp.nv, np.nan)
        mv = exp.get(t)
        if exp.tol:
            ok = np.allclose(rv, mv, rtol=exp.tol, atol=exp.tol * 1e-3 + exp.tol * getattr(exp, "scale", 0.0), equal_nan=True)
        else:
            ok = np.array_equal(rv, mv, equal_nan=True)
        if not ok:
            return ("refine", f"{ctx}: at serial {t} (offset {t - lo} from start) got {rv.tolist()} expected {mv.tolist()}")
    if exp.tight:
        if sp is None:
            return ("tight", f"{ctx}: all-missing result should be the empty series but has start {real.start} and {n} rows")
        if (lo, hi) != sp:
            return ("tight", f"{ctx}: reported span serials [{lo},{hi}] but values only on [{sp[0]},{sp[1]}]")
    return None


class SeriesWorld(World):
    PROPERTY = "C10"
    NAME = "series"

    # -- configuration ----------------------------------------------------------------------------
    @classmethod
    def swarm(cls, rng, tier):
        freq = rng.choice(["Q", "Q", "M", "Y", "H", "D", "I"])
        alien = rng.choice([f for f in cal.ALL_FREQS if f != freq])
        kinds = list(OP_WEIGHTS)
        # swarm: disable a random subset of op kinds (never the constructors)
        disabled = [k for k in kinds if k not in ("new", "drop", "set") and rng.random() < 0.25]
        weights = {k: (0 if k in disabled else OP_WEIGHTS[k] * rng.choice([1, 1, 2, 3])) for k in kinds}
        return {
            "world": cls.NAME,
            "freq": freq,
            "alien": alien,
            "base": BASES[freq](rng),
            "alien_base": BASES[alien](rng),
            "pop": rng.randint(3, 7) if tier == "quick" else rng.randint(3, 9),
            "actors": rng.randint(1, 3),
            "steps": rng.choice([20, 40, 60]) if tier == "quick" else rng.choice([20, 40, 60, 100, 150]),
            "nan_density": rng.choice([0.0, 0.1, 0.3, 0.6]),
            "max_len": rng.choice([3, 6, 12]) if tier == "quick" else rng.choice([3, 6, 12, 24]),
            "max_nv": rng.choice([1, 2, 3, 3]) if tier == "quick" else rng.choice([1, 2, 3, 3, 5]),
            "p_func": rng.choice([0.2, 0.5, 0.8]),
            "p_foreign": rng.choice([0.2, 0.5]),
            "weights": weights,
        }

    def __init__(self, cfg, known=None):
        super().__init__(cfg, known)
        _lazy()
        self.live = {}      # name -> Obj
        self.snaps = {}     # name -> snapshot
        self.iters = {}     # name -> iteration in flight over a live series (iter_dates_values)
        self.caller = []    # arrays the caller still holds: handed to a constructor or a write, or returned by a read
        self.counter = 0
        self.freq = cfg["freq"]
        self._filters = None

    # -- helpers ----------------------------------------------------------------------------------
    def _new_name(self):
        self.counter += 1
        return f"s{self.counter}"

    def step_handles(self, step):
        a = step.get("args", {})
        hs = []
        for k in ("h", "other", "lhs", "rhs", "src"):
            if isinstance(a.get(k), str):
                hs.append(a[k])
        for o in a.get("others", []) or []:
            if isinstance(o, str):
                hs.append(o)
        d = a.get("data")
        if isinstance(d, dict) and d.get("k") == "series":
            hs.append(d["h"])
        hs.extend(step.get("out", []) or [])
        return tuple(hs)

    def can_apply(self, step):
        outs = set(step.get("out", []) or [])
        for h in self.step_handles(step):
            if h in outs:
                continue
            if h not in self.live:
                return False
        if step["op"] == "iter_next" and step["args"]["it"] not in self.iters:
            return False
        return True

    def retire(self, handles):
        for h in handles:
            self.live.pop(h, None)
            self.snaps.pop(h, None)
        for it in [i for i, info in self.iters.items() if info["h"] not in self.live]:
            self.iters.pop(it, None)

    def finish(self):
        for it in sorted(self.iters):
            self._iter_pull(it, 10 ** 6, "finish.iter_next")

    # An iteration over the periods and values of a series is an operation in flight while other steps run (writes to the
    # same series included): what it yields must be the rows of the series in ONE of the states it had meanwhile.
    @staticmethod
    def _rows_of(m):
        return [(t, [None if math.isnan(x) else float(x) for x in m.get(t)]) for t in m.rows()]

    def _iter_note(self, h):
        for info in self.iters.values():
            if info["h"] == h:
                info["states"].append(self._rows_of(self.live[h].model))
                self.probes["series_written_under_live_iteration"] += 1

    def _iter_pull(self, it, k, opname):
        info = self.iters[it]
        done = False
        for _ in range(k):
            try:
                p, v = next(info["it"])
            except StopIteration:
                done = True
                break
            except Exception as e:
                strip_traceback(e)
                self.iters.pop(it, None)
                raise Violation("crash", opname, "written" if len(info["states"]) > 1 else "", type(e).__name__,
                                f"an iteration in flight raised {type(e).__name__}: {str(e)[:120]}")
            info["got"].append((int(p.serial), [None if math.isnan(x) else float(x) for x in v]))
        got = info["got"]
        pred = "written" if len(info["states"]) > 1 else ""
        if done:
            self.iters.pop(it, None)
            if not any(got == st for st in info["states"]):
                raise Violation("refine", opname, pred, "", f"a completed iteration over periods and values yielded {got[:3]}... ({len(got)} rows), "
                                f"which is the series in none of the {len(info['states'])} states it had meanwhile")
            if len(info["states"]) > 1:
                self.probes["iteration_completed_across_write"] += 1
        elif not any(got == st[:len(got)] for st in info["states"]):
            self.iters.pop(it, None)
            raise Violation("refine", opname, pred, "", f"an iteration in flight has yielded {got[:3]}..., a prefix of the series in none of the states it had meanwhile")

    def fingerprint(self):
        return sha1(canon({h: o.model.dump() for h, o in sorted(self.live.items())}))

    def abstract(self):
        out = []
        for h, o in self.live.items():
            m = o.model
            n = m.n
            bucket = 0 if n == 0 else 1 if n == 1 else 2 if n <= 4 else 3
            sp = m.span()
            lead = bool(sp and m.lo is not None and sp[0] > m.lo)
            trail = bool(sp and m.lo is not None and sp[1] < m.hi)
            interior = bool(sp and any(t not in m.cells for t in range(sp[0], sp[1] + 1)))
            view = o.real.data.base is not None
            out.append((m.freq or "-", m.nv, bucket, lead, trail, interior, view))
        return sorted(out)

    # -- generation -------------------------------------------------------------------------------
    def gen_step(self, st):
        rng = st.get("ops")
        val = st.get("values")
        sched = st.get("sched")
        cfg = self.cfg
        actor = f"a{sched.randrange(cfg['actors'])}"
        own = [h for h, o in self.live.items() if o.owner == actor]
        if len(self.live) < 2 or (not own and rng.random() < 0.7):
            return self._gen_new(actor, val, rng)
        w = cfg["weights"]
        kinds = [k for k in w if w[k] > 0]
        for _ in range(30):
            kind = rng.choices(kinds, weights=[w[k] for k in kinds])[0]
            if kind in ("new", "call", "binop", "scalarop", "unary", "hstack", "ishift", "copy", "apply", "new_shared") and len(self.live) >= cfg["pop"]:
                kind = "drop" if rng.random() < 0.5 else kind
                if kind != "drop" and len(self.live) >= cfg["pop"] + 2:
                    kind = "drop"
            g = getattr(self, "_gen_" + kind)
            step = g(actor, val, rng)
            if step is not None:
                step["actor"] = actor
                return step
        return self._gen_new(actor, val, rng)

    def _pick(self, rng, actor, pred=None, foreign_ok=True):
        own = [h for h, o in self.live.items() if o.owner == actor and (pred is None or pred(o))]
        oth = [h for h, o in self.live.items() if o.owner != actor and (pred is None or pred(o))]
        # empty series are absorbing under most operations: keep them a minority of the operands
        if rng.random() < 0.8:
            own2 = [h for h in own if self.live[h].model.cells]
            oth2 = [h for h in oth if self.live[h].model.cells]
            if own2 or oth2:
                own, oth = own2, oth2
        if own and (not oth or not foreign_ok or rng.random() > self.cfg["p_foreign"]):
            return rng.choice(own)
        if oth and foreign_ok:
            return rng.choice(oth)
        if own:
            return rng.choice(own)
        return None

    def _native(self, o):
        return o.model.freq in (None, self.freq) and (o.model.lo is None or o.model.freq == self.freq)

    def _alien(self, o):
        return o.model.freq == self.cfg["alien"] and o.model.lo is not None

    def _rand_value(self, val, allow_nan=True):
        if allow_nan and val.random() < self.cfg["nan_density"]:
            return None
        return val.choice(VALUE_POOL)

    def _rand_block(self, val, n, k):
        return [[self._rand_value(val) for _ in range(k)] for _ in range(n)]

    def _around(self, rng, m: SM, slack=4):
        if m.lo is None:
            return self.cfg["base"] + rng.randint(-slack, slack)
        return rng.randint(m.lo - slack, m.lo + max(m.n, 1) - 1 + slack)

    def _gen_new(self, actor, val, rng, freq=None):
        cfg = self.cfg
        alien = freq is None and rng.random() < 0.12
        f = freq or (cfg["alien"] if alien else cfg["freq"])
        base = cfg["alien_base"] if f == cfg["alien"] else cfg["base"]
        nv = rng.randint(1, cfg["max_nv"])
        n = rng.choice([0, 1, 2]) if rng.random() < 0.25 else rng.randint(1, cfg["max_len"])
        start = base + rng.randint(-5, 5)
        ctor = "empty" if n == 0 else rng.choice(["start_values", "periods_values", "start_tuple"] if nv == 1 else ["start_values", "periods_values"])
        values = self._rand_block(val, n, nv)
        desc = rng.choice(["", "", "alpha", "b, \"q\""])
        return {"op": "new", "actor": actor, "out": [self._new_name()],
                "args": {"freq": f, "start": start, "nv": nv, "values": values, "ctor": ctor, "desc": desc}}

    def _gen_new_shared(self, actor, val, rng):
        """Two series built by the public Series.from_start_and_array over ONE caller-owned numpy array."""
        cfg = self.cfg
        nv = rng.randint(1, cfg["max_nv"])
        n = rng.randint(2, max(2, cfg["max_len"]))
        values = [[val.choice(VALUE_POOL) for _ in range(nv)] for _ in range(n)]
        return {"op": "new_shared", "actor": actor, "out": [self._new_name(), self._new_name()],
                "args": {"freq": cfg["freq"], "start": cfg["base"] + rng.randint(-3, 3), "nv": nv, "values": values,
                         "offset": rng.choice([0, 0, 1])}}

    def _gen_apply(self, actor, val, rng):
        h = self._pick(rng, actor, self._native)
        if h is None:
            return None
        return {"op": "apply", "out": [self._new_name()], "args": {"h": h, "fn": rng.choice(["real", "real", "negative", "asarray", "square"])}}

    def _gen_drop(self, actor, val, rng):
        if len(self.live) <= 2:
            return None
        return {"op": "drop", "args": {"h": rng.choice(sorted(self.live))}}

    def _gen_dates(self, rng, m: SM, allow_all=True, max_n=5, around=None):
        r = rng.random()
        t = self._around(rng, m) if around is None else around
        if r < 0.35:
            return {"k": "p", "t": t}
        if r < 0.75:
            n = rng.randint(1, max_n)
            step = rng.choice([1, 1, 1, 2, -1])
            if step > 0:
                return {"k": "span", "a": t, "b": t + (n - 1) * step + rng.choice([0, 0, 1]) * (step - 1), "step": step}
            return {"k": "span", "a": t + n - 1, "b": t, "step": -1}
        if r < 0.88 or not allow_all:
            n = rng.randint(1, max_n)
            ts = rng.sample(range(t - 3, t + 6), n)
            return {"k": "list", "ts": ts}
        if r < 0.95 and m.lo is not None and m.n > 0:
            # context-dependent periods: open-ended spans and start/end arithmetic, resolved against the RECEIVER
            q = rng.random()
            if q < 0.35:
                return {"k": "ctx", "a": None, "b": ["abs", rng.randint(m.lo, m.hi + 2)]}
            if q < 0.7:
                return {"k": "ctx", "a": ["abs", rng.randint(m.lo - 2, m.hi)], "b": None}
            a = [rng.choice(["start", "end"]), rng.randint(-2, 2)]
            b = ["end", a[1] + rng.randint(0, 3)] if a[0] == "end" else [rng.choice(["start", "end"]), rng.randint(-1, 3)]
            return {"k": "ctx", "a": a, "b": b}
        return {"k": "all"}

    @staticmethod
    def dates_serials(d, m: SM):
        k = d["k"]
        if k == "p":
            return [d["t"]]
        if k == "span":
            s = d["step"]
            return list(range(d["a"], d["b"] + (1 if s > 0 else -1), s))
        if k == "list":
            return list(d["ts"])
        if k == "all":
            return list(m.rows())
        if k == "ctx":
            def res(e, default):
                if e is None:
                    return default
                if e[0] == "abs":
                    return e[1]
                return (m.lo if e[0] == "start" else m.hi) + e[1]
            a, b = res(d["a"], m.lo), res(d["b"], m.hi)
            return list(range(a, b + 1))
        raise HarnessError(k)

    def dates_real(self, d, freq):
        k = d["k"]
        if k == "p":
            return P(freq, d["t"])
        if k == "span":
            return ir.Span(P(freq, d["a"]), P(freq, d["b"]), d["step"])
        if k == "list":
            return [P(freq, t) for t in d["ts"]]
        if k == "all":
            return ...
        if k == "ctx":
            def end(e):
                if e is None:
                    return None
                if e[0] == "abs":
                    return P(freq, e[1])
                base = ir.start if e[0] == "start" else ir.end
                return base + e[1] if e[1] else base
            return ir.Span(end(d["a"]), end(d["b"]))
        raise HarnessError(k)

    def _gen_variants(self, rng, nv):
        r = rng.random()
        if nv == 1 or r < 0.6:
            return None
        if r < 0.8:
            return rng.randrange(nv)
        if r < 0.9:
            return sorted(rng.sample(range(nv), rng.randint(1, nv)))
        a = rng.randrange(nv)
        return {"sl": [a, rng.randint(a + 1, nv)]}

    @staticmethod
    def vids_of(v, nv):
        if v is None:
            return list(range(nv))
        if isinstance(v, int):
            return [v]
        if isinstance(v, list):
            return list(v)
        return list(range(*slice(v["sl"][0], v["sl"][1]).indices(nv)))

    @staticmethod
    def variants_real(v):
        if v is None or isinstance(v, (int, list)):
            return v
        return slice(v["sl"][0], v["sl"][1])

    def _gen_set(self, actor, val, rng):
        h = self._pick(rng, actor, self._native)
        if h is None:
            return None
        m = self.live[h].model
        dates = self._gen_dates(rng, m)
        ts = self.dates_serials(dates, m)
        variants = self._gen_variants(rng, m.nv)
        vids = self.vids_of(variants, m.nv)
        n, k = len(ts), len(vids)
        r = rng.random()
        if r < 0.35 or n == 0:
            data = {"k": "scalar", "v": self._rand_value(val)}
        elif r < 0.6:
            kk = rng.choice([k, k, 1]) if k > 1 else 1
            data = {"k": "array", "v": self._rand_block(val, n, kk)}
        elif r < 0.7:
            data = {"k": "tuple", "v": [self._rand_value(val) for _ in range(n)]}
        elif r < 0.8:
            data = {"k": "list", "v": [self._rand_value(val) for _ in range(rng.choice([k, 1]))]}
        else:
            o = self._pick(rng, actor, lambda o: self._native(o) and o.model.lo is not None)
            if o is None or o == h:
                data = {"k": "scalar", "v": self._rand_value(val)}
            else:
                data = {"k": "series", "h": o}
        return {"op": "set", "args": {"h": h, "dates": dates, "variants": variants, "data": data,
                                      "via": rng.choice(["setitem", "setitem", "set_data"])}}

    def _gen_read(self, actor, val, rng):
        h = self._pick(rng, actor, self._native)
        if h is None:
            return None
        m = self.live[h].model
        how = rng.choice(["getitem", "get_data", "get_values", "from_until", "props", "missing", "data_and_periods",
                          "iter_dates_values", "variant_from_until"])
        if how == "iter_dates_values":
            return {"op": "read", "args": {"h": h, "how": how, "unpack": rng.random() < 0.5}}
        if how == "variant_from_until":
            a = self._around(rng, m)
            return {"op": "read", "args": {"h": h, "how": how, "a": a, "b": a + rng.randint(0, 5),
                                           "v": rng.choice([None, 0] + list(range(m.nv)))}}
        if how == "missing":
            return {"op": "read", "args": {"h": h, "how": how, "dates": self._gen_dates(rng, m) if rng.random() < 0.6 else None}}
        if how == "from_until":
            a = self._around(rng, m)
            return {"op": "read", "args": {"h": h, "how": how, "a": a, "b": a + rng.randint(0, 5),
                                           "variants": self._gen_variants(rng, m.nv)}}
        if how == "props":
            return {"op": "read", "args": {"h": h, "how": how}}
        if how in ("getitem", "get_data") and rng.random() < 0.3:
            # the whole series, the way it is usually read: x.get_data(), x[...]
            return {"op": "read", "args": {"h": h, "how": how, "dates": {"k": "all"}, "variants": None, "bare": rng.random() < 0.5}}
        return {"op": "read", "args": {"h": h, "how": how, "dates": self._gen_dates(rng, m),
                                       "variants": self._gen_variants(rng, m.nv)}}

    def _gen_call(self, actor, val, rng):
        h = self._pick(rng, actor, self._native)
        if h is None:
            return None
        m = self.live[h].model
        return {"op": "call", "out": [self._new_name()],
                "args": {"h": h, "dates": self._gen_dates(rng, m), "variants": self._gen_variants(rng, m.nv)}}

    def _form(self, rng):
        return "func" if rng.random() < self.cfg["p_func"] else "method"

    def _with_form(self, rng, step):
        form = self._form(rng)
        step["args"]["form"] = form
        if form == "func":
            step["out"] = [self._new_name()]
        return step

    def _gen_shift(self, actor, val, rng):
        h = self._pick(rng, actor, self._native)
        if h is None:
            return None
        m = self.live[h].model
        if rng.random() < 0.6 or m.freq in (None, "I"):
            by = rng.choice([-4, -3, -2, -1, -1, 1, 1, 2, 3, 0])
        else:
            by = rng.choice(["yoy", "soy", "eopy", "tty"])
        return self._with_form(rng, {"op": "shift", "args": {"h": h, "by": by}})

    def _gen_clip(self, actor, val, rng):
        h = self._pick(rng, actor, self._native)
        if h is None:
            return None
        m = self.live[h].model
        a = self._around(rng, m)
        b = a + rng.randint(0, 6)
        if rng.random() < 0.15:
            a = None
        elif rng.random() < 0.15:
            b = None
        return {"op": "clip", "args": {"h": h, "a": a, "b": b}}

    def _gen_lay(self, actor, val, rng):
        h = self._pick(rng, actor, self._native)
        o = self._pick(rng, actor, self._native)
        if h is None or o is None or h == o:
            return None
        a, b = self.live[h].model, self.live[o].model
        if not (a.nv == b.nv or a.nv == 1 or b.nv == 1):
            return None
        return self._with_form(rng, {"op": "lay", "args": {"h": h, "other": o, "which": rng.choice(["overlay", "underlay"])}})

    def _gen_elem(self, actor, val, rng):
        h = self._pick(rng, actor, self._native)
        if h is None:
            return None
        if rng.random() < 0.7:
            fn = rng.choice(sorted(sm.ELEMENTWISE_1))
            arg = None
        else:
            fn = rng.choice(sorted(sm.ELEMENTWISE_2))
            arg = rng.choice([0, 1, 2]) if fn == "round" else val.choice(VALUE_POOL)
        return self._with_form(rng, {"op": "elem", "args": {"h": h, "fn": fn, "arg": arg}})

    def _gen_stat(self, actor, val, rng):
        h = self._pick(rng, actor, self._native)
        if h is None:
            return None
        if rng.random() < 0.2:
            fn = rng.choice(sorted(sm.QUANTILES))
            return self._with_form(rng, {"op": "stat", "args": {"h": h, "fn": fn, "q": rng.choice(sm.QUANTILES[fn])}})
        return self._with_form(rng, {"op": "stat", "args": {"h": h, "fn": rng.choice(sm.STATS)}})

    def _gen_stat0(self, actor, val, rng):
        h = self._pick(rng, actor, lambda o: self._native(o) and o.model.n > 0)
        if h is None:
            return None
        return {"op": "stat0", "args": {"h": h, "fn": rng.choice(sm.STATS)}}

    def _gen_mov(self, actor, val, rng):
        h = self._pick(rng, actor, self._native)
        if h is None:
            return None
        window = -rng.randint(1, 4) if rng.random() < 0.85 else None
        if rng.random() < 0.2:
            # the generic form: any reducing function over the window
            return self._with_form(rng, {"op": "mov", "args": {"h": h, "fn": rng.choice(sorted(sm.GENERIC_WINDOW_FUNCS)), "window": window, "generic": True}})
        return self._with_form(rng, {"op": "mov", "args": {"h": h, "fn": rng.choice(sorted(sm.MOVING)), "window": window}})

    def _gen_fill(self, actor, val, rng):
        h = self._pick(rng, actor, self._native)
        if h is None:
            return None
        m = self.live[h].model
        method = rng.choice(["next", "previous", "nearest", "linear", "log_linear", "constant", "from_series"])
        args = {"h": h, "method": method, "const": None, "src": None, "span": None}
        if method == "constant":
            args["const"] = val.choice(VALUE_POOL)
        if method == "from_series":
            src = self._pick(rng, actor, lambda o: self._native(o) and o.model.nv == 1 and o.model.lo is not None)
            if src is None or src == h:
                return None
            args["src"] = src
        if rng.random() < 0.4:
            a = self._around(rng, m)
            args["span"] = [a, a + rng.randint(0, 6)]
        return self._with_form(rng, {"op": "fill", "args": args})

    def _gen_extrap(self, actor, val, rng):
        h = self._pick(rng, actor, lambda o: self._native(o))
        if h is None:
            return None
        m = self.live[h].model
        a = (m.hi + 1 + rng.choice([0, 0, 0, -1, 1])) if m.lo is not None else self.cfg["base"]
        p = rng.choice([1, 1, 2])
        coeffs = [rng.choice([0.5, 0.9, -0.3, 1.0]) for _ in range(p)]
        step = self._with_form(rng, {"op": "extrap", "args": {
            "h": h, "coeffs": coeffs, "a": a, "n": rng.randint(1, 4),
            "intercept": rng.choice([0, 1.0, -0.5]), "log": rng.random() < 0.2}})
        if m.lo is not None and m.n > 0 and rng.random() < 0.25:
            # the span given relative to the series itself: irispie.end+1 >> irispie.end+3, or up to a fixed period
            off = rng.choice([1, 1, 0, -1])
            step["args"]["ctx"] = [off, off + step["args"]["n"] - 1, rng.random() < 0.5]
        return step

    def _gen_nvar(self, actor, val, rng):
        h = self._pick(rng, actor, self._native)
        if h is None:
            return None
        return {"op": "nvar", "args": {"h": h, "num": rng.randint(1, 4)}}

    def _gen_change(self, actor, val, rng):
        h = self._pick(rng, actor, self._native)
        if h is None:
            return None
        m = self.live[h].model
        if rng.random() < 0.7 or m.freq in (None, "I"):
            shift = -rng.randint(1, 4)
        else:
            shift = rng.choice(["yoy", "soy", "eopy"])
        return self._with_form(rng, {"op": "change", "args": {"h": h, "fn": rng.choice(sorted(sm.CHANGES)), "shift": shift}})

    def _keep(self, arr, how):
        """The caller goes on holding an array it handed to the library or got back from it."""
        if isinstance(arr, np.ndarray) and arr.size and arr.flags.writeable:
            self.caller.append((arr, how))
            del self.caller[:-6]

    def _gen_scribble(self, actor, val, rng):
        if not self.caller:
            return None
        i = len(self.caller) - 1 if rng.random() < 0.5 else rng.randrange(len(self.caller))
        if rng.random() < 0.3:
            return {"op": "scribble", "args": {"span_of": self._pick(rng, actor, lambda o: o.model.lo is not None and o.model.n > 0), "k": rng.choice([-2, 1, 3])}}
        return {"op": "scribble", "args": {"i": i, "v": rng.choice([12345.5, -777.0, None])}}

    def _gen_iter_open(self, actor, val, rng):
        if len(self.iters) >= 2:
            return None
        h = self._pick(rng, actor, lambda o: self._native(o) and o.model.lo is not None and o.model.n > 1)
        if h is None:
            return None
        self.counter += 1
        return {"op": "iter_open", "args": {"h": h, "it": f"it{self.counter}", "first": rng.choice([0, 1, 2])}}

    def _gen_iter_next(self, actor, val, rng):
        if not self.iters:
            return None
        return {"op": "iter_next", "args": {"it": rng.choice(sorted(self.iters)), "k": rng.choice([1, 1, 2, 1000])}}

    def _gen_achange(self, actor, val, rng):
        h = self._pick(rng, actor, self._native)
        if h is None:
            return None
        return self._with_form(rng, {"op": "achange", "args": {"h": h, "fn": rng.choice(sorted(sm.ACHANGES))}})

    def _gen_convert(self, actor, val, rng):
        h = self._pick(rng, actor, self._native)
        if h is None:
            return None
        return self._with_form(rng, {"op": "convert", "args": {"h": h, "fn": rng.choice(sorted(sm.CONVERSIONS))}})

    def _gen_cum(self, actor, val, rng):
        h = self._pick(rng, actor, lambda o: self._native(o) and o.model.lo is not None and o.model.n > 0)
        if h is None:
            return None
        m = self.live[h].model
        args = {"h": h, "fn": rng.choice(sorted(sm.CUMULATIONS)), "k": rng.choice([1, 1, 2, 3]),
                "initial": rng.choice([None, None, 1.0, 2.0, 0.5]), "span": None}
        if rng.random() < 0.3:
            a = rng.randint(m.lo - 2, m.hi + 1)
            args["span"] = [a, a + rng.randint(0, m.n + 1)]
        return self._with_form(rng, {"op": "cum", "args": args})

    def _gen_restart(self, actor, val, rng):
        h = self._pick(rng, actor, lambda o: self._native(o) and o.model.lo is not None and o.model.n > 0)
        if h is None:
            return None
        m = self.live[h].model
        how = rng.choice(["redate", "redate_old", "set_start"])
        args = {"h": h, "how": how, "new": m.lo + rng.randint(-6, 6), "old": rng.randint(m.lo - 2, m.hi + 2)}
        step = {"op": "restart", "args": args}
        if how != "set_start" and rng.random() < self.cfg["p_func"]:
            step["args"]["form"] = "func"
            step["out"] = [self._new_name()]
        return step

    def _gen_shape(self, actor, val, rng):
        h = self._pick(rng, actor, self._native)
        if h is None:
            return None
        m = self.live[h].model
        how = rng.choice(["trim", "trim", "reset", "expand", "shrink", "extract", "extract"])
        args = {"h": h, "how": how}
        if how == "expand":
            args["num"] = m.nv + rng.randint(0, 2)
        elif how == "shrink":
            args["num"] = rng.randint(1, m.nv)
        elif how == "extract":
            args["cols"] = [rng.randrange(m.nv) for _ in range(rng.randint(1, 3))] if rng.random() < 0.7 else rng.randrange(m.nv)
        return {"op": "shape", "args": args}

    def _gen_binop(self, actor, val, rng):
        a = self._pick(rng, actor, self._native)
        b = self._pick(rng, actor, self._native)
        if a is None or b is None:
            return None
        ma, mb = self.live[a].model, self.live[b].model
        if not (ma.nv == mb.nv or ma.nv == 1 or mb.nv == 1):
            return None
        return {"op": "binop", "out": [self._new_name()],
                "args": {"lhs": a, "rhs": b, "fn": rng.choice(sorted(sm.BINOPS))}}

    def _gen_scalarop(self, actor, val, rng):
        h = self._pick(rng, actor, self._native)
        if h is None:
            return None
        return {"op": "scalarop", "out": [self._new_name()],
                "args": {"h": h, "fn": rng.choice(sorted(sm.BINOPS)), "scalar": val.choice(VALUE_POOL),
                         "reflected": rng.random() < 0.4}}

    def _gen_unary(self, actor, val, rng):
        h = self._pick(rng, actor, self._native)
        if h is None:
            return None
        return {"op": "unary", "out": [self._new_name()],
                "args": {"h": h, "fn": rng.choice(["neg", "pos", "abs", "round"]), "nd": rng.choice([0, 1])}}

    def _gen_hstack(self, actor, val, rng):
        h = self._pick(rng, actor, self._native)
        if h is None:
            return None
        how = rng.choice(["or", "and", "method"])
        k = 1 if how in ("or", "and") else rng.randint(0, 2)
        others = []
        for _ in range(k):
            # a bare number has no span of its own: only specified next to a receiver that has periods
            if rng.random() < 0.15 and self.live[h].model.n > 0:
                others.append(val.choice(VALUE_POOL))
            else:
                o = self._pick(rng, actor, self._native)
                if o is None:
                    return None
                others.append(o)
        return {"op": "hstack", "out": [self._new_name()], "args": {"h": h, "others": others, "how": how}}

    def _gen_ishift(self, actor, val, rng):
        h = self._pick(rng, actor, self._native)
        if h is None:
            return None
        return {"op": "ishift", "out": [self._new_name()], "args": {"h": h, "by": rng.choice([-3, -2, -1, 1, 2, 0])}}

    def _gen_copy(self, actor, val, rng):
        h = self._pick(rng, actor)
        if h is None:
            return None
        return {"op": "copy", "out": [self._new_name()], "args": {"h": h, "how": rng.choice(["copy", "copy", "deepcopy", "pickle"])}}

    def _gen_replace_where(self, actor, val, rng):
        h = self._pick(rng, actor, self._native)
        if h is None:
            return None
        return {"op": "replace_where", "args": {"h": h, "test": rng.choice(["lt", "gt", "eq"]),
                                                "c": val.choice(VALUE_POOL), "v": self._rand_value(val)}}

    def _gen_describe(self, actor, val, rng):
        h = self._pick(rng, actor)
        if h is None:
            return None
        return {"op": "describe", "args": {"h": h, "desc": rng.choice(["", "x", "renamed, again"])}}

    def _gen_mixfreq(self, actor, val, rng):
        h = self._pick(rng, actor, lambda o: self._native(o) and o.model.lo is not None and o.model.n > 0)
        if h is None:
            return None
        al = [x for x, o in self.live.items() if self._alien(o) and o.model.n > 0]
        how = rng.choice(["set_period", "set_series", "binop", "overlay", "underlay", "hstack", "getitem", "clip"])
        if how in ("set_series", "binop", "overlay", "underlay", "hstack"):
            if not al:
                return self._gen_new(actor, val, rng, freq=self.cfg["alien"])
            o = rng.choice(sorted(al))
            if self.live[o].model.nv != self.live[h].model.nv and how != "hstack":
                if not (self.live[o].model.nv == 1 or self.live[h].model.nv == 1):
                    return None
        else:
            o = None
        return {"op": "mixfreq", "args": {"h": h, "other": o, "how": how, "t": self.cfg["alien_base"] + rng.randint(-2, 2),
                                          "fn": rng.choice(["add", "mul", "sub"])}}

    # -- application ------------------------------------------------------------------------------
    def _apply(self, step):
        op = step["op"]
        self.stats["op." + op] += 1
        if op in MUTATING and step["args"].get("form") != "func":
            self.mutating_steps += 1
        with warnings.catch_warnings():
            warnings.simplefilter("ignore")
            with np.errstate(all="ignore"):
                out = getattr(self, "_do_" + op)(step, step["args"])
        self.max_live = max(self.max_live, len(self.live))
        self.stats["outcome." + out.split(":")[0]] += 1
        return out

    # generic executor --------------------------------------------------------------------------
    def _predicate(self, roles):
        parts = []
        for role, h in roles:
            m = self.live[h].model
            parts.append(f"{role}:{m.shape_class()}")
        if len(roles) >= 2:
            a, b = self.live[roles[0][1]].model, self.live[roles[1][1]].model
            rel = "eq" if a.nv == b.nv else "recv1" if a.nv == 1 else "other1" if b.nv == 1 else "incompatible"
            parts.append("nv:" + rel)
        return ",".join(parts)

    def _isolation(self, opname, pred, exclude=()):
        for h, o in self.live.items():
            if h in exclude:
                continue
            s = self.snaps.get(h)
            if s is None:
                continue
            now = snapshot(o.real)
            if now != s:
                what = []
                for label, x, y in zip(("start", "shape", "dtype", "data", "description", "metadata"), s, now):
                    if x != y:
                        what.append(label)
                raise Violation("isolation", opname, pred, "", f"series {h} (not the receiver) changed: {'/'.join(what)}", handles=(h,))

    def _check_alias(self, opname, pred, result, name, inputs):
        for h, o in self.live.items():
            if h == name:
                continue
            if o.real is result:
                raise Violation("alias", opname, pred, "", f"result is the same object as live series {h}", handles=(h,))
            if np.shares_memory(o.real.data, result.data):
                raise Violation("alias", opname, pred, "", f"result shares its data buffer with live series {h}", handles=(h,))
            if isinstance(result.metadata, dict) and result.metadata is o.real.metadata:
                raise Violation("alias", opname, pred, "", f"result shares its metadata dict with live series {h}", handles=(h,))

    def _exec(self, step, opname, roles, thunk, *, recv=None, out=None, expect: Exp | None = None,
              must_reject=False, owner=None, desc_same_as=None, may_alias=False):
        """
        Run `thunk` on the real objects and judge the outcome.
          recv:   handle mutated by a method form (expect describes it afterwards)
          out:    name of the new handle created by a functional form / operator (expect describes it)
        """
        pred = self._predicate(roles)
        for role, h in roles:
            sc = self.live[h].model.shape_class()
            if sc != "data":
                self.probes[f"{role}_{sc}"] += 1
            if self.live[h].real.data.base is not None:
                self.probes["view_backed_operand"] += 1
        try:
            result = thunk()
        except Exception as e:
            if isinstance(e, (Violation, HarnessError)):
                raise
            ename = type(e).__name__
            if must_reject:
                # rejected: nobody but (possibly) the receiver may have changed
                self._isolation(opname, pred, exclude=(recv,) if recv else ())
                if recv:
                    self.retire((recv,))
                return "rejected:" + ename
            # the model says the operation is defined on these operands
            try:
                self._isolation(opname, pred, exclude=(recv,) if recv else ())
            finally:
                if recv:
                    self.retire((recv,))
            raise Violation("crash", opname, pred, ename, f"{ename}: {str(e)[:160]}")
        if must_reject:
            raise Violation("mixfreq_not_rejected", opname, pred, "", "operands of different frequencies were combined without an error")
        if recv is not None:
            real = self.live[recv].real
            bad = conforms(real, expect, f"{opname} receiver {recv}")
            if bad:
                raise Violation(bad[0], opname, pred, "", bad[1], handles=(recv,))
            self._isolation(opname, pred, exclude=(recv,))
            self.live[recv].model = model_from_real(real)
            self.snaps[recv] = snapshot(real)
            if self.iters:
                self._iter_note(recv)
            return "ok"
        if out is not None:
            if not isinstance(result, ir.Series):
                raise Violation("refine", opname, pred, "", f"expected a Series result, got {type(result).__name__}")
            bad = conforms(result, expect, f"{opname} result")
            if bad:
                raise Violation(bad[0], opname, pred, "", bad[1])
            self._isolation(opname, pred)
            if may_alias:
                if any(np.shares_memory(o.real.data, result.data) for o in self.live.values()):
                    self.probes["legitimately_shared_buffer_in_population"] += 1
            else:
                self._check_alias(opname, pred, result, out, roles)
            self.live[out] = Obj(result, model_from_real(result), owner or step.get("actor", "a0"))
            self.snaps[out] = snapshot(result)
            self.probes["result_joined_population"] += 1
            return "ok"
        # pure read
        self._isolation(opname, pred)
        return "ok"

    # -- individual operations --------------------------------------------------------------------
    def _do_new(self, step, a):
        f, nv, start = a["freq"], a["nv"], a["start"]
        vals = from_nan_list(a["values"], nv) if a["values"] else np.full((0, nv), np.nan)
        ctor = a["ctor"]
        if ctor == "empty" or vals.shape[0] == 0:
            s = ir.Series(num_variants=nv, description=a["desc"])
            m = SM(None, nv, None, None, 0, a["desc"])
        else:
            if ctor == "start_values":
                mine = vals.copy()
                self._keep(mine, "constructor")
                s = ir.Series(num_variants=nv, start=P(f, start), values=mine, description=a["desc"])
            elif ctor == "start_tuple":
                s = ir.Series(start=P(f, start), values=tuple(float(x) for x in vals[:, 0]), description=a["desc"])
            else:
                mine = vals.copy()
                self._keep(mine, "constructor")
                s = ir.Series(num_variants=nv, periods=[P(f, start + i) for i in range(vals.shape[0])], values=mine, description=a["desc"])
            m = sm.from_array(f, nv, start, vals, a["desc"])
        exp = Exp(m.freq, nv, m.cells, tight=True, desc=a["desc"])
        bad = conforms(s, exp, "constructor")
        if bad:
            raise Violation(bad[0], "new." + ctor, "", "", bad[1])
        name = step["out"][0]
        self._isolation("new." + ctor, "")
        self.live[name] = Obj(s, model_from_real(s), step.get("actor", "a0"))
        self.snaps[name] = snapshot(s)
        return "ok"

    def _do_drop(self, step, a):
        self.retire((a["h"],))
        return "ok"

    def _do_new_shared(self, step, a):
        """
        Series.from_start_and_array keeps the caller's array.  The property does not forbid that; what it does
        demand is that a later write through one series changes exactly that series' cells - the isolation
        monitor watches the sibling from now on.
        """
        f, nv = a["freq"], a["nv"]
        arr = from_nan_list(a["values"], nv)
        out1, out2 = step["out"]
        s1 = ir.Series.from_start_and_array(P(f, a["start"]), arr)
        s2 = ir.Series.from_start_and_array(P(f, a["start"] + a["offset"]), arr)
        for name, s, st in ((out1, s1, a["start"]), (out2, s2, a["start"] + a["offset"])):
            m = sm.from_array(f, nv, st, arr)
            bad = conforms(s, Exp(m.freq, nv, m.cells, tight=True), "from_start_and_array")
            if bad:
                raise Violation(bad[0], "new_shared", "", "", bad[1])
        self._isolation("new_shared", "")
        for name, s in ((out1, s1), (out2, s2)):
            self.live[name] = Obj(s, model_from_real(s), step.get("actor", "a0"))
            self.snaps[name] = snapshot(s)
        if np.shares_memory(s1.data, s2.data):
            self.probes["legitimately_shared_buffer_in_population"] += 1
        return "ok"

    def _do_apply(self, step, a):
        """Series.apply(func): func may hand back its argument (np.real of a float array does), so the result may share the buffer."""
        h = a["h"]
        o = self.live[h]
        table = {"real": np.real, "negative": np.negative, "asarray": np.asarray, "square": np.square}
        f = table[a["fn"]]
        exp = sm.t_rowwise(o.model, f)
        return self._exec(step, "apply." + a["fn"], [("recv", h)], lambda: o.real.apply(f), out=step["out"][0], expect=exp, may_alias=True)

    def _do_describe(self, step, a):
        h = a["h"]
        o = self.live[h]
        m = o.model
        exp = Exp(m.freq, m.nv, m.cells)

        def thunk():
            o.real.set_description(a["desc"])
            if o.real.get_description() != a["desc"]:
                raise Violation("refine", "describe", "", "", "get_description does not return the description just set")
        return self._exec(step, "describe", [("recv", h)], thunk, recv=h, expect=exp)

    def _do_set(self, step, a):
        h = a["h"]
        o = self.live[h]
        m = o.model
        freq = m.freq if m.lo is not None else self.freq
        ts = self.dates_serials(a["dates"], m)
        vids = self.vids_of(a["variants"], m.nv)
        d = a["data"]
        k = d["k"]
        roles = [("recv", h)]
        if k == "scalar":
            v = np.nan if d["v"] is None else d["v"]
            value_at = lambda i, j: v
            real_data = v
        elif k == "array":
            A = from_nan_list(d["v"])
            value_at = lambda i, j: A[i][min(j, A.shape[1] - 1)]
            real_data = A.copy()
            self._keep(real_data, "write")
        elif k == "tuple":
            tv = [np.nan if x is None else x for x in d["v"]]
            value_at = lambda i, j: tv[i]
            real_data = tuple(tv)
        elif k == "list":
            lv = [np.nan if x is None else x for x in d["v"]]
            value_at = lambda i, j: lv[min(j, len(lv) - 1)]
            real_data = list(lv)
        elif k == "series":
            om = self.live[d["h"]].model
            value_at = lambda i, j: om.get(ts[i])[min(j, om.nv - 1)]
            real_data = self.live[d["h"]].real
            roles.append(("data", d["h"]))
            self.probes["set_from_series"] += 1
        else:
            raise HarnessError(k)
        exp = sm.t_set(m, freq, ts, vids, value_at)
        exp.desc = m.desc
        if a["dates"]["k"] == "ctx":
            self.probes["contextual_periods_in_write"] += 1
        if m.lo is None:
            self.probes["write_into_empty"] += 1
        elif ts:
            if min(ts) < m.lo:
                self.probes["write_before_start"] += 1
            if max(ts) > m.hi:
                self.probes["write_after_end"] += 1
        if m.cells and not exp.cells:
            self.probes["write_trims_to_empty"] += 1
        dates_real = self.dates_real(a["dates"], freq)
        var_real = self.variants_real(a["variants"])

        def thunk():
            if a["via"] == "set_data":
                o.real.set_data(dates_real, real_data, var_real)
            elif var_real is None:
                o.real[dates_real] = real_data
            else:
                o.real[dates_real, var_real] = real_data
        return self._exec(step, "set." + k, roles, thunk, recv=h, expect=exp)

    def _do_read(self, step, a):
        h = a["h"]
        o = self.live[h]
        m = o.model
        how = a["how"]
        s = o.real
        opname = "read." + how
        if how == "props":
            def thunk():
                n = s.data.shape[0]
                if s.start is None:
                    if s.end is not None or tuple(s.periods) != () or s.shape[0] not in (0,):
                        if s.shape[0] and not np.all(np.isnan(s.data)):
                            raise Violation("cover", opname, "", "", "no start but data present")
                    return
                if s.num_periods != n or s.num_variants != m.nv or s.shape != (n, m.nv):
                    raise Violation("refine", opname, "", "", f"shape observers disagree: {s.shape} {s.num_periods} {s.num_variants}")
                per = s.periods
                if [int(p.serial) for p in per] != list(range(m.lo, m.lo + n)):
                    raise Violation("refine", opname, "", "", f"periods {[int(p.serial) for p in per]} vs rows {m.lo}+{n}")
                if n and (int(s.end.serial) != m.lo + n - 1 or freq_letter_of(s.end) != m.freq):
                    raise Violation("refine", opname, "", "", "end inconsistent")
                if freq_letter_of(s.start) != m.freq or int(s.frequency) != cal.FREQ_VALUE[m.freq]:
                    raise Violation("refine", opname, "", "", "frequency inconsistent")
                if s.is_empty != (n == 0):
                    raise Violation("refine", opname, "", "", "is_empty inconsistent")
                if n and s.has_missing != bool(np.isnan(m.own()).any()):
                    raise Violation("refine", opname, "", "", "has_missing inconsistent")
            return self._exec(step, opname, [("recv", h)], thunk)
        freq = m.freq if m.lo is not None else self.freq
        if how == "iter_dates_values":
            want = [(t, [None if math.isnan(x) else float(x) for x in m.get(t)]) for t in m.rows()]

            def thunk():
                got = []
                for p, v in s.iter_dates_values(unpack_singleton=a["unpack"]):
                    if m.nv == 1 and a["unpack"]:
                        v = [v]
                    got.append((int(p.serial), [None if math.isnan(x) else float(x) for x in v]))
                    if freq_letter_of(p) != m.freq:
                        raise Violation("refine", opname, "", "", "period of another frequency")
                if got != want:
                    raise Violation("refine", opname, "", "", f"iteration over periods and values yields {got[:4]}..., the series holds {want[:4]}...")
            return self._exec(step, opname, [("recv", h)], thunk)
        if how == "variant_from_until":
            v = a["v"]
            col = v if v else 0      # no variant given means the first; variants beyond the last are not generated
            ts = list(range(a["a"], a["b"] + 1))
            want = np.array([m.get(t)[col] for t in ts], dtype=float)

            def thunk():
                got = s.get_data_variant_from_until((P(freq, a["a"]), P(freq, a["b"])), v)
                self._cmp_read(opname, np.asarray(got, dtype=float).reshape(-1), want)
            return self._exec(step, opname, [("recv", h)], thunk)
        if how == "missing":
            d = a["dates"]
            ts = list(m.rows()) if d is None else self.dates_serials(d, m)
            block = np.array([m.get(t) for t in ts], dtype=float).reshape(len(ts), m.nv)
            nan = np.isnan(block)
            want = (bool(nan.any()), bool(nan.all()), int(np.count_nonzero(nan)))

            def thunk():
                args = () if d is None else (self.dates_real(d, freq),)
                got = (s.any_missing(*args), s.all_missing(*args), s.count_missing(*args))
                if (bool(got[0]), bool(got[1]), int(got[2])) != want:
                    raise Violation("refine", opname, "", "", f"any/all/count_missing report {got}, the series holds {want}")
            return self._exec(step, opname, [("recv", h)], thunk)
        vids = self.vids_of(a.get("variants"), m.nv)
        var_real = self.variants_real(a.get("variants"))
        if how == "from_until":
            ts = list(range(a["a"], a["b"] + 1))
            want = np.array([m.get(t)[vids] for t in ts]).reshape(len(ts), len(vids))

            def thunk():
                got = s.get_data_from_until((P(freq, a["a"]), P(freq, a["b"])), var_real) if var_real is not None else s.get_data_from_until((P(freq, a["a"]), P(freq, a["b"])))
                self._cmp_read(opname, got, want)
            return self._exec(step, opname, [("recv", h)], thunk)
        ts = self.dates_serials(a["dates"], m)
        want = np.array([m.get(t)[vids] for t in ts], dtype=float).reshape(len(ts), len(vids))
        dr = self.dates_real(a["dates"], freq)

        def thunk():
            if how == "getitem":
                got = s[dr] if var_real is None else s[dr, var_real]
                self._cmp_read(opname, got, want)
                self._keep(got, "read")
            elif how == "data_and_periods":
                got, per = s.get_data_and_periods(dr) if var_real is None else s.get_data_and_periods(dr, var_real)
                self._cmp_read(opname, got, want)
                if [int(p.serial) for p in per] != list(ts):
                    raise Violation("refine", opname, "", "", f"periods returned {[int(p.serial) for p in per]}, requested {list(ts)}")
            elif how == "get_data":
                got = (s.get_data() if a.get("bare") else s.get_data(dr)) if var_real is None else s.get_data(dr, var_real)
                self._cmp_read(opname, got, want)
                if isinstance(got, np.ndarray) and got.size and np.shares_memory(got, s.data):
                    self.probes["read_returns_view"] += 1
                self._keep(got, "read")
            else:
                got = s.get_values(dr, unpack_singleton=False) if var_real is None else s.get_values(dr, var_real, unpack_singleton=False)
                arr = np.array([list(col) for col in got], dtype=float).T.reshape(len(ts), len(vids)) if len(got) else np.zeros((len(ts), 0))
                self._cmp_read(opname, arr, want)
        return self._exec(step, opname, [("recv", h)], thunk)

    @staticmethod
    def _cmp_read(opname, got, want):
        got = np.asarray(got, dtype=float)
        if got.shape != want.shape:
            if got.size == 0 and want.size == 0:
                return
            raise Violation("refine", opname, "", "", f"read returned shape {got.shape}, expected {want.shape}")
        if not np.array_equal(got, want, equal_nan=True):
            raise Violation("refine", opname, "", "", f"read returned {got.tolist()}, last written values are {want.tolist()}")

    def _do_call(self, step, a):
        h = a["h"]
        o = self.live[h]
        m = o.model
        freq = m.freq if m.lo is not None else self.freq
        ts = self.dates_serials(a["dates"], m)
        vids = self.vids_of(a["variants"], m.nv)
        exp = sm.t_call(m, freq, ts, vids)
        dr = self.dates_real(a["dates"], freq)
        vr = self.variants_real(a["variants"])
        return self._exec(step, "call", [("recv", h)], (lambda: o.real(dr) if vr is None else o.real(dr, vr)),
                          out=step["out"][0], expect=exp)

    def _method_or_func(self, step, opname, roles, h, exp, method_thunk, func_thunk):
        form = step["args"].get("form", "method")
        if exp.desc is None:
            exp.desc = self.live[h].model.desc
        if form == "func":
            return self._exec(step, opname + ".func", roles, func_thunk, out=step["out"][0], expect=exp)
        return self._exec(step, opname + ".method", roles, method_thunk, recv=h, expect=exp)

    def _do_shift(self, step, a):
        h = a["h"]
        o = self.live[h]
        m = o.model
        by = a["by"]
        exp = sm.t_shift_int(m, by) if isinstance(by, int) else (sm.t_shift_kw(m, by) if m.lo is not None else Exp(m.freq, m.nv, {}))
        name = "shift.int" if isinstance(by, int) else "shift." + by
        if m.lo is None:
            self.probes["shift_of_empty"] += 1
        return self._method_or_func(step, name, [("recv", h)], h, exp,
                                    lambda: o.real.shift(by), lambda: ir.shift(o.real, by))

    def _do_clip(self, step, a):
        h = a["h"]
        o = self.live[h]
        m = o.model
        freq = m.freq if m.lo is not None else self.freq
        exp = sm.t_clip(m, a["a"], a["b"]) if m.lo is not None else Exp(m.freq, m.nv, {})
        exp.desc = m.desc
        pa = P(freq, a["a"]) if a["a"] is not None else None
        pb = P(freq, a["b"]) if a["b"] is not None else None
        if m.lo is not None:
            if (a["a"] is not None and a["a"] > m.hi) or (a["b"] is not None and a["b"] < m.lo):
                self.probes["clip_disjoint"] += 1
            if (a["a"] is None or a["a"] <= m.lo) and (a["b"] is None or a["b"] >= m.hi):
                self.probes["clip_wider_than_span"] += 1
        return self._exec(step, "clip", [("recv", h)], lambda: o.real.clip(pa, pb), recv=h, expect=exp)

    def _do_lay(self, step, a):
        h, oh = a["h"], a["other"]
        o, other = self.live[h], self.live[oh]
        which = a["which"]
        exp = (sm.t_overlay if which == "overlay" else sm.t_underlay)(o.model, other.model)
        if other.model.lo is not None and o.model.lo is not None:
            if other.model.lo < o.model.lo or other.model.hi > o.model.hi:
                self.probes["lay_extends_receiver"] += 1
        if o.model.nv != other.model.nv:
            self.probes["lay_variant_broadcast"] += 1
        meth = getattr(o.real, which)
        func = getattr(ir, which)
        return self._method_or_func(step, "lay." + which, [("recv", h), ("other", oh)], h, exp,
                                    lambda: meth(other.real), lambda: func(o.real, other.real))

    def _do_elem(self, step, a):
        h = a["h"]
        o = self.live[h]
        fn, arg = a["fn"], a["arg"]
        if arg is None:
            f = sm.ELEMENTWISE_1[fn]
            exp = sm.t_rowwise(o.model, f, tol=1e-12)
            return self._method_or_func(step, "elem." + fn, [("recv", h)], h, exp,
                                        lambda: getattr(o.real, fn)(), lambda: getattr(ir, fn)(o.real))
        f = sm.ELEMENTWISE_2[fn]
        exp = sm.t_rowwise(o.model, lambda x: f(x, arg), tol=1e-12)
        return self._method_or_func(step, "elem." + fn, [("recv", h)], h, exp,
                                    lambda: getattr(o.real, fn)(arg), lambda: getattr(ir, fn)(o.real, arg))

    def _do_stat(self, step, a):
        h = a["h"]
        o = self.live[h]
        fn = a["fn"]
        extra = (a["q"],) if "q" in a else ()
        exp = sm.t_stat(o.model, fn, *extra)
        return self._method_or_func(step, "stat." + fn, [("recv", h)], h, exp,
                                    lambda: getattr(o.real, fn)(*extra), lambda: getattr(ir, fn)(o.real, *extra))

    def _do_stat0(self, step, a):
        h = a["h"]
        o = self.live[h]
        fn = a["fn"]
        m = o.model
        want = np.asarray(getattr(np, fn)(m.own(), axis=0), dtype=float).reshape(-1)
        # a reduction over the periods: absolute accuracy is bounded by the largest operand, not by the result
        atol = 1e-12 + 1e-9 * (sm.reduction_scale(m, fn) / max(m.nv, 1)) * max(m.n, 1)

        def thunk():
            got = getattr(ir, fn)(o.real, axis=0, unpack_singleton=False)
            got = np.asarray(got, dtype=float).reshape(-1)
            if got.shape != want.shape or not np.allclose(got, want, rtol=1e-9, atol=atol, equal_nan=True):
                raise Violation("refine", "stat0." + fn, "", "", f"axis=0 statistic {got.tolist()} vs {want.tolist()}")
        return self._exec(step, "stat0." + fn, [("recv", h)], thunk)

    def _do_mov(self, step, a):
        h = a["h"]
        o = self.live[h]
        fn, w = a["fn"], a["window"]
        exp = sm.t_moving(o.model, fn, w)
        if w is None:
            self.probes["moving_window_default_length"] += 1
        if a.get("generic"):
            f = sm.GENERIC_WINDOW_FUNCS[fn]
            return self._method_or_func(step, "mov.moving_window." + fn, [("recv", h)], h, exp,
                                        lambda: o.real.moving_window(f, window=w), lambda: ir.moving_window(o.real, f, window=w))
        wa = () if w is None else (w,)
        return self._method_or_func(step, "mov." + fn, [("recv", h)], h, exp,
                                    lambda: getattr(o.real, fn)(*wa), lambda: getattr(ir, fn)(o.real, *wa))

    def _do_fill(self, step, a):
        h = a["h"]
        o = self.live[h]
        m = o.model
        freq = m.freq if m.lo is not None else self.freq
        method = a["method"]
        src = self.live[a["src"]] if a["src"] else None
        if a["span"] is not None:
            lo, hi = a["span"]
            span_real = ir.Span(P(freq, lo), P(freq, hi))
        else:
            lo, hi = (m.lo, m.hi) if m.lo is not None and m.n > 0 else (None, None)
            span_real = None
        exp = sm.t_fill(m, method, a["const"], src.model if src else None, lo, hi)
        roles = [("recv", h)] + ([("src", a["src"])] if src else [])
        marg = a["const"] if method == "constant" else (src.real if src else None)
        kw = {} if span_real is None else {"span": span_real}
        return self._method_or_func(step, "fill." + method + (".span" if span_real is not None else ""), roles, h, exp,
                                    lambda: o.real.fill_missing(method, marg, **kw),
                                    lambda: ir.fill_missing(o.real, method, marg, **kw))

    def _do_extrap(self, step, a):
        h = a["h"]
        o = self.live[h]
        m = o.model
        freq = m.freq if m.lo is not None else self.freq
        start_serial = a["a"]
        if a.get("ctx") and m.lo is not None and m.n > 0:
            off_a, off_b, fixed_end = a["ctx"]
            start_serial = m.hi + off_a
            first = ir.end + off_a if off_a else ir.end
            last = P(freq, m.hi + off_b) if fixed_end else (ir.end + off_b if off_b else ir.end)
            span = first >> last
            self.probes["extrapolation_on_contextual_span"] += 1
        else:
            span = ir.Span(P(freq, a["a"]), P(freq, a["a"] + a["n"] - 1))
        exp = sm.t_extrapolate(m, a["coeffs"], start_serial, a["n"], a["intercept"], a["log"])
        kw = dict(intercept=a["intercept"], log=a["log"])
        return self._method_or_func(step, "extrap", [("recv", h)], h, exp,
                                    lambda: o.real.extrapolate(list(a["coeffs"]), span, **kw),
                                    lambda: ir.extrapolate(o.real, list(a["coeffs"]), span, **kw))

    def _do_nvar(self, step, a):
        h = a["h"]
        o = self.live[h]
        exp = sm.t_nvar(o.model, a["num"])
        exp.desc = o.model.desc
        return self._exec(step, "nvar", [("recv", h)], lambda: o.real.alter_num_variants(a["num"]), recv=h, expect=exp)

    def _do_change(self, step, a):
        h = a["h"]
        o = self.live[h]
        m = o.model
        fn, shift = a["fn"], a["shift"]
        exp = sm.t_change(m, fn, shift) if (m.lo is not None or isinstance(shift, int)) else Exp(m.freq, m.nv, {}, tight=True)
        exp.desc = None
        name = "change." + fn + ("" if isinstance(shift, int) else "." + shift)
        form = step["args"].get("form", "method")
        # description of the result is not specified for temporal changes: learnt
        if form == "func":
            return self._exec(step, name + ".func", [("recv", h)], lambda: getattr(ir, fn)(o.real, shift), out=step["out"][0], expect=exp)
        return self._exec(step, name + ".method", [("recv", h)], lambda: getattr(o.real, fn)(shift), recv=h, expect=exp)

    def _do_scribble(self, step, a):
        """The caller writes into an array of its own: one it passed to a constructor or to a write earlier, or one a read
        returned.  None of that is an operation on a series, so no series may change (constructors, writes and reads copy)."""
        if "span_of" in a:
            # the caller takes x.span (a Span is mutable) and shifts ITS span in place: the series keeps its periods
            h = a["span_of"]
            if h is None or h not in self.live:
                return "skipped"
            o = self.live[h]
            sp = o.real.span
            if sp is None or getattr(sp, "needs_resolve", False):
                return "skipped"
            sp.shift(a["k"])
            self.probes["caller_shifted_span_it_got_from_series"] += 1
            bad = conforms(o.real, Exp(o.model.freq, o.model.nv, o.model.cells), f"series {h} after the caller shifted the span it had been given")
            if bad:
                raise Violation(bad[0], "scribble.span", "", "", bad[1], handles=(h,))
            self._isolation("scribble.span", "")
            return "ok"
        if a["i"] >= len(self.caller):
            return "skipped"
        arr, how = self.caller[a["i"]]
        arr[...] = np.nan if a["v"] is None else a["v"]
        self.probes["caller_wrote_into_own_array_" + how] += 1
        self._isolation("scribble." + how, "")
        return "ok"

    def _do_iter_open(self, step, a):
        h = a["h"]
        o = self.live[h]

        def thunk():
            self.iters[a["it"]] = {"it": iter(o.real.iter_dates_values(unpack_singleton=False)), "h": h,
                                   "states": [self._rows_of(o.model)], "got": []}
            if a.get("first"):
                self._iter_pull(a["it"], a["first"], "iter_open")
        self.probes["iteration_opened"] += 1
        return self._exec(step, "iter_open", [("recv", h)], thunk)

    def _do_iter_next(self, step, a):
        info = self.iters[a["it"]]
        return self._exec(step, "iter_next", [("recv", info["h"])] if info["h"] in self.live else [], lambda: self._iter_pull(a["it"], a["k"], "iter_next"))

    def _do_achange(self, step, a):
        h = a["h"]
        o = self.live[h]
        fn = a["fn"]
        exp = sm.t_achange(o.model, fn)
        if a.get("form") == "func":
            return self._exec(step, "achange." + fn + ".func", [("recv", h)], lambda: getattr(ir, fn)(o.real), out=step["out"][0], expect=exp)
        return self._exec(step, "achange." + fn + ".method", [("recv", h)], lambda: getattr(o.real, fn)(), recv=h, expect=exp)

    def _do_convert(self, step, a):
        h = a["h"]
        o = self.live[h]
        fn = a["fn"]
        exp = sm.t_convert(o.model, fn)
        return self._method_or_func(step, "convert." + fn, [("recv", h)], h, exp,
                                    lambda: getattr(o.real, fn)(), lambda: getattr(ir, fn)(o.real))

    def _do_cum(self, step, a):
        h = a["h"]
        o = self.live[h]
        m = o.model
        fn, k, initial, span = a["fn"], a["k"], a["initial"], a["span"]
        exp = sm.t_cum(m, fn, k, initial, *(span or (None, None)))
        kw = {}
        if initial is not None:
            kw["initial"] = initial
        if span is not None:
            kw["span"] = P(m.freq, span[0]) >> P(m.freq, span[1])
            self.probes["cumulation_on_explicit_span"] += 1
        name = "cum." + fn
        if a.get("form") == "func":
            return self._exec(step, name + ".func", [("recv", h)], lambda: getattr(ir, fn)(o.real, -k, **kw), out=step["out"][0], expect=exp)
        return self._exec(step, name + ".method", [("recv", h)], lambda: getattr(o.real, fn)(-k, **kw), recv=h, expect=exp)

    def _do_restart(self, step, a):
        """Moving a series in time: every value keeps its distance from the start, the start becomes the requested period."""
        h = a["h"]
        o = self.live[h]
        m = o.model
        how = a["how"]
        new = P(m.freq, a["new"])
        if how == "redate_old":
            # the period that used to be `old` becomes `new`
            exp = sm.t_redate(m, a["new"] - (a["old"] - m.lo))
            args = (new, P(m.freq, a["old"]))
        else:
            exp = sm.t_redate(m, a["new"])
            args = (new,)
        name = "restart." + how
        if a.get("form") == "func":
            return self._exec(step, name + ".func", [("recv", h)], lambda: ir.redate(o.real, *args), out=step["out"][0], expect=exp)
        if how == "set_start":
            return self._exec(step, name + ".method", [("recv", h)], lambda: (o.real.set_start(new), None)[1], recv=h, expect=exp)
        return self._exec(step, name + ".method", [("recv", h)], lambda: o.real.redate(*args), recv=h, expect=exp)

    def _do_shape(self, step, a):
        h = a["h"]
        o = self.live[h]
        m = o.model
        how = a["how"]
        if how == "trim":
            exp = Exp(m.freq, m.nv, m.cells, tight=True)
            if m.lo is not None and m.span() != (m.lo, m.hi):
                self.probes["trim_of_untrimmed_series"] += 1
            thunk = lambda: o.real.trim()
        elif how == "reset":
            exp = Exp(m.freq, m.nv, {}, tight=True)
            thunk = lambda: o.real.reset()
        elif how == "expand":
            exp = sm.t_nvar(m, a["num"])
            thunk = lambda: o.real.expand_num_variants(a["num"])
        elif how == "shrink":
            exp = sm.t_nvar(m, a["num"])
            if a["num"] == m.nv:
                self.probes["shrink_to_same_number"] += 1
            thunk = lambda: o.real.shrink_num_variants(a["num"])
        else:
            cols = a["cols"]
            exp = sm.t_columns(m, cols if isinstance(cols, list) else [cols])
            thunk = lambda: o.real.extract_variants(cols)
        return self._exec(step, "shape." + how, [("recv", h)], thunk, recv=h, expect=exp)

    _PYOP = {
        "add": lambda x, y: x + y, "sub": lambda x, y: x - y, "mul": lambda x, y: x * y,
        "truediv": lambda x, y: x / y, "pow": lambda x, y: x ** y, "floordiv": lambda x, y: x // y,
        "mod": lambda x, y: x % y,
    }

    def _do_binop(self, step, a):
        lh, rh = a["lhs"], a["rhs"]
        l, r = self.live[lh], self.live[rh]
        fn = a["fn"]
        exp = sm.t_binop(l.model, r.model, sm.BINOPS[fn])
        if l.model.lo is not None and r.model.lo is not None and (l.model.hi < r.model.lo or r.model.hi < l.model.lo):
            self.probes["binop_non_overlapping"] += 1
        if l.model.nv != r.model.nv:
            self.probes["binop_variant_broadcast"] += 1
        if lh == rh:
            self.probes["binop_same_object"] += 1
        f = self._PYOP[fn]
        return self._exec(step, "binop." + fn, [("lhs", lh), ("rhs", rh)], lambda: f(l.real, r.real),
                          out=step["out"][0], expect=exp)

    def _do_scalarop(self, step, a):
        h = a["h"]
        o = self.live[h]
        fn, c, refl = a["fn"], a["scalar"], a["reflected"]
        nf = sm.BINOPS[fn]
        if refl:
            exp = sm.t_rowwise(o.model, lambda x: nf(c, x), tol=1e-12)
            thunk = lambda: self._PYOP[fn](c, o.real)
        else:
            exp = sm.t_rowwise(o.model, lambda x: nf(x, c), tol=1e-12)
            thunk = lambda: self._PYOP[fn](o.real, c)
        # a binary arithmetic operator (one operand a number): the result is tight
        exp.tight = True
        return self._exec(step, "scalarop." + fn + (".r" if refl else ""), [("recv", h)], thunk, out=step["out"][0], expect=exp)

    def _do_unary(self, step, a):
        h = a["h"]
        o = self.live[h]
        fn = a["fn"]
        nd = a["nd"]
        table = {
            "neg": (lambda x: -x, lambda: -o.real),
            "pos": (lambda x: x, lambda: +o.real),
            "abs": (np.abs, lambda: abs(o.real)),
            "round": (lambda x: np.round(x, nd), lambda: round(o.real, nd)),
        }
        f, thunk = table[fn]
        exp = sm.t_rowwise(o.model, f)
        exp.desc = o.model.desc
        return self._exec(step, "unary." + fn, [("recv", h)], thunk, out=step["out"][0], expect=exp)

    def _do_hstack(self, step, a):
        h = a["h"]
        o = self.live[h]
        others_m = [self.live[x].model if isinstance(x, str) else x for x in a["others"]]
        others_r = [self.live[x].real if isinstance(x, str) else x for x in a["others"]]
        roles = [("recv", h)] + [("other", x) for x in a["others"] if isinstance(x, str)][:1]
        how = a["how"]
        if not others_m:
            exp = Exp(o.model.freq, o.model.nv, o.model.cells)
        else:
            exp = sm.t_hstack(o.model, others_m)
        if how == "or":
            thunk = lambda: o.real | others_r[0]
        elif how == "and":
            thunk = lambda: o.real & others_r[0]
        else:
            thunk = lambda: o.real.hstack(*others_r)
        return self._exec(step, "hstack", roles, thunk, out=step["out"][0], expect=exp)

    def _do_ishift(self, step, a):
        h = a["h"]
        o = self.live[h]
        exp = sm.t_shift_int(o.model, a["by"])
        exp.desc = o.model.desc
        return self._exec(step, "ishift", [("recv", h)], lambda: o.real[a["by"]], out=step["out"][0], expect=exp)

    def _do_copy(self, step, a):
        h = a["h"]
        o = self.live[h]
        exp = Exp(o.model.freq, o.model.nv, o.model.cells, desc=o.model.desc)
        how = a.get("how", "copy")
        import copy as _cp
        import pickle as _pk
        call = {"copy": lambda: o.real.copy(), "deepcopy": lambda: _cp.deepcopy(o.real), "pickle": lambda: _pk.loads(_pk.dumps(o.real)),
                "func": lambda: ir.copy(o.real) if hasattr(ir, "copy") else o.real.copy()}[how]
        out = self._exec(step, "copy" if how == "copy" else "copy." + how, [("recv", h)], call, out=step["out"][0], expect=exp)
        new = self.live.get(step["out"][0])
        if new is not None and (new.model.lo, new.model.n) != (o.model.lo, o.model.n):
            raise Violation("refine", "copy", "", "", "copy reports a different span than its source")
        return out

    def _do_replace_where(self, step, a):
        h = a["h"]
        o = self.live[h]
        c = a["c"]
        v = np.nan if a["v"] is None else a["v"]
        test = {"lt": lambda x: x < c, "gt": lambda x: x > c, "eq": lambda x: x == c}[a["test"]]

        def f(x):
            x = x.copy()
            x[test(x)] = v
            return x
        exp = sm.t_rowwise(o.model, f)
        exp.tight = True
        exp.desc = o.model.desc
        return self._exec(step, "replace_where", [("recv", h)], lambda: o.real.replace_where(test, v), recv=h, expect=exp)

    def _do_mixfreq(self, step, a):
        h = a["h"]
        o = self.live[h]
        how = a["how"]
        alien = self.cfg["alien"]
        self.probes["mixfreq_attempt"] += 1
        roles = [("recv", h)] + ([("other", a["other"])] if a["other"] else [])
        other = self.live[a["other"]].real if a["other"] else None
        t = P(alien, a["t"])
        # operations on a scratch copy would hide receiver damage; run on the receiver and retire it
        if how == "set_period":
            thunk = lambda: o.real.__setitem__(t, 1.0)
            recv = h
        elif how == "getitem":
            thunk = lambda: o.real[t]
            recv = None
        elif how == "clip":
            thunk = lambda: o.real.clip(t, t + 2)
            recv = h
        elif how == "set_series":
            p0 = P(o.model.freq, o.model.lo)
            thunk = lambda: o.real.__setitem__(p0, other)
            recv = h
        elif how == "binop":
            f = self._PYOP[a["fn"]]
            thunk = lambda: f(o.real, other)
            recv = None
        elif how in ("overlay", "underlay"):
            thunk = lambda: getattr(o.real, how)(other)
            recv = h
        elif how == "hstack":
            thunk = lambda: o.real | other
            recv = None
        else:
            raise HarnessError(how)
        return self._exec(step, "mixfreq." + how, roles, thunk, recv=recv, must_reject=True)


def simplifiers(step):
    """Yield simpler variants of one step (used by the minimiser after ddmin)."""
    a = step.get("args", {})
    op = step["op"]
    if op == "new":
        vals = a.get("values") or []
        if len(vals) > 1:
            for cut in (vals[:1], vals[:-1], vals[1:]):
                s = _clone(step)
                s["args"]["values"] = cut
                if cut is vals[1:]:
                    s["args"]["start"] = a["start"] + 1
                yield s
        if a.get("nv", 1) > 1 and vals:
            s = _clone(step)
            s["args"]["nv"] = 1
            s["args"]["values"] = [row[:1] for row in vals]
            yield s
        if a.get("desc"):
            s = _clone(step)
            s["args"]["desc"] = ""
            yield s
    if a.get("form") == "func":
        pass
    if op == "set":
        d = a["dates"]
        if d["k"] == "span" and d["a"] != d["b"]:
            s = _clone(step)
            s["args"]["dates"] = {"k": "p", "t": d["a"]}
            if a["data"]["k"] in ("array", "tuple"):
                s["args"]["data"] = {"k": "scalar", "v": 1.0}
            yield s
        if a["data"]["k"] != "scalar" and a["data"]["k"] != "series":
            s = _clone(step)
            s["args"]["data"] = {"k": "scalar", "v": 1.0}
            yield s
        if a.get("variants") is not None:
            s = _clone(step)
            s["args"]["variants"] = None
            if a["data"]["k"] != "series":
                s["args"]["data"] = {"k": "scalar", "v": 1.0}
            yield s


def _clone(step):
    import copy
    return copy.deepcopy(step)
