"""
World `models` (property C20): a model and its copies / pickles / dill round trips / file round trips /
portable round trips as replicated state machines.  Seeded actors interleave public mutators and
read-only operations over the replicas; the oracles are spawn equivalence, per-step isolation of every
other replica, fresh replay of each replica's logical log, the multi-variant split check, the portable
clause, and (through a simulated file system with injected faults) durability and bounded recovery of
saved models.  A second interpreter with a different hash seed is the hand-off party.
"""

from __future__ import annotations

import copy as _copy
import json
import os
import pickle
import subprocess
import sys
import tempfile
import warnings

import numpy as np

from ..kit import simfs, globalstate
from ..kit.core import World, Violation, HarnessError, canon, sha1, strip_traceback
from . import model_zoo as zoo
from .model_zoo import ADAPTERS, TEMPLATES, obs_diff, project

VERIF = os.path.dirname(os.path.dirname(os.path.dirname(os.path.abspath(__file__))))

OP_WEIGHTS = {"new": 2, "mutate": 30, "read": 12, "spawn": 12, "save": 8, "load": 7, "split": 12, "replay": 6,
              "drop": 3, "handoff": 2, "cleanroom": 1}
FAULT_KINDS = ("open_enoent", "open_eacces", "open_enospc", "write_enospc", "write_eio", "read_eio", "close_eio", "rename_eio", "crash")
RTOL = 1e-9


class Replica:
    __slots__ = ("real", "tname", "cls", "log", "owner", "origin", "raised")

    def __init__(self, real, tname, cls, log, owner, origin, raised=None):
        self.real = real
        self.tname = tname
        self.cls = cls
        self.log = log
        self.owner = owner
        self.origin = origin
        self.raised = list(raised or [])


class ModelsWorld(World):
    PROPERTY = "C20"
    NAME = "models"
    STEP_CAP = 400.0     # a clean-room replay or a hand-off starts a second interpreter (its own limit is 300 s)

    @classmethod
    def swarm(cls, rng, tier):
        tnames = sorted(TEMPLATES)
        kinds = list(OP_WEIGHTS)
        disabled = [k for k in kinds if k not in ("new", "mutate", "spawn", "replay") and rng.random() < 0.2]
        weights = {k: (0 if k in disabled else OP_WEIGHTS[k] * rng.choice([1, 1, 2])) for k in kinds}
        if tier == "quick" and rng.random() > 0.3:
            weights["handoff"] = 0
        if tier != "quick" and rng.random() > 0.25:
            weights["handoff"] = 0
        if tier == "quick" and rng.random() > 0.05:
            weights["cleanroom"] = 0
        if tier != "quick" and rng.random() > 0.2:
            weights["cleanroom"] = 0
        faulty = rng.random() < 0.4
        if rng.random() < 0.08:
            # single-fault sweep over one sampled save workload (see DESIGN 2.4)
            tname = rng.choice(tnames)
            return {
                "world": cls.NAME, "mode": "sweep", "templates": [tname], "replicas": 3, "actors": 1, "paths": 1, "steps": 300,
                "max_nv": rng.choice([1, 2]), "horizon": 3, "fault_kinds": list(FAULT_KINDS), "p_fault": 0.0, "p_short": 0.0,
                "buffer": rng.choice([16, 256]), "weights": weights,
                "sweep": {"side": rng.choice(["write", "write", "read"]), "target_calls": rng.choice([6, 12, 20]),
                          "how": rng.choice(ADAPTERS[TEMPLATES[tname]["cls"]].file_kinds)},
            }
        return {
            "world": cls.NAME, "mode": "random",
            "templates": rng.sample(tnames, rng.randint(1, 2)),
            "replicas": rng.randint(2, 5) if tier == "quick" else rng.randint(2, 7),
            "actors": rng.randint(1, 3),
            "paths": rng.randint(1, 2) if tier == "quick" else rng.randint(1, 3),
            "steps": rng.choice([12, 20, 30]) if tier == "quick" else rng.choice([12, 20, 30, 50, 80]),
            "max_nv": rng.choice([1, 2, 3, 3]) if tier == "quick" else rng.choice([1, 2, 3, 3, 4]),
            "horizon": rng.choice([1, 3, 6]),
            "fault_kinds": [k for k in FAULT_KINDS if rng.random() < 0.5] if faulty else [],
            "p_fault": rng.choice([0.2, 0.4]) if faulty else 0.0,
            "p_short": rng.choice([0.0, 0.3, 0.6]) if faulty else rng.choice([0.0, 0.15]),
            "buffer": rng.choice([16, 256, 8192]),
            "weights": weights, "p_eintr": rng.choice([0.0, 0.0, 0.2, 0.5]),
        }

    def __init__(self, cfg, known=None):
        super().__init__(cfg, known)
        zoo._irispie()
        self.fs = simfs.SimFS()
        simfs.install(self.fs)
        self.live = {}       # handle -> Replica
        self.digests = {}    # handle -> digest of cheap observables
        self.disk = {}       # path -> record | "torn"
        self.counter = 0
        self.seq = 0
        self.handoffs = 0
        self.cleanrooms = 0
        self._g0 = globalstate.snapshot()

    def close(self):
        # which OS routes the code under test took to the simulated disk (beyond plain open/read/write)
        for k, v in self.fs.os_calls.items():
            self.probes["oscall_" + k] += v
        simfs._CURRENT["fs"] = None

    # -- bookkeeping ------------------------------------------------------------------------------
    def _name(self):
        self.counter += 1
        return f"m{self.counter}"

    def step_handles(self, step):
        a = step.get("args", {})
        hs = [a["h"]] if isinstance(a.get("h"), str) else []
        hs.extend(step.get("out", []) or [])
        return tuple(hs)

    def can_apply(self, step):
        outs = set(step.get("out", []) or [])
        for h in self.step_handles(step):
            if h not in outs and h not in self.live:
                return False
        if step["op"] == "load" and step["args"]["path"] not in self.fs.files:
            return False
        return True

    def unjudged(self, step):
        return step["op"] == "load" and self.disk.get(step["args"]["path"]) in (None, "torn")

    def retire(self, handles):
        for h in handles:
            self.live.pop(h, None)
            self.digests.pop(h, None)

    def _cheap(self, r: Replica):
        return ADAPTERS[r.cls].cheap(r.real)

    def _deep(self, r: Replica):
        return ADAPTERS[r.cls].deep(r.real, r.tname, self.cfg["horizon"])

    def _digest(self, r: Replica):
        return sha1(canon(self._cheap(r)))

    def fingerprint(self):
        doc = {h: [r.tname, r.origin, r.log, self.digests.get(h)] for h, r in sorted(self.live.items())}
        doc["disk"] = {p: ("torn" if rec == "torn" else [rec["how"], rec["tname"], len(rec["log"])]) for p, rec in sorted(self.disk.items())}
        return sha1(canon(doc))

    def abstract(self):
        out = []
        for h, r in self.live.items():
            ks = [op["k"] for op in r.log]
            nv = r.real.num_variants
            out.append((r.cls, r.origin, nv, "steady" in ks, "solve" in ks or "estimate" in ks, min(len(r.log), 6)))
        disk = tuple(sorted("torn" if rec == "torn" else "complete" for rec in self.disk.values()))
        return (sorted(out), disk)

    # -- generation -------------------------------------------------------------------------------
    def gen_step(self, st):
        rng, val, sched, flt = st.get("ops"), st.get("values"), st.get("sched"), st.get("faults")
        cfg = self.cfg
        if cfg.get("mode") == "sweep":
            step = self._gen_sweep(rng, val, flt)
            if step is not None:
                step.setdefault("actor", "a0")
            return step
        actor = f"a{sched.randrange(cfg['actors'])}"
        pending = getattr(self, "_pending", None)
        if pending:
            step = pending.pop(0)
            if step["args"]["h"] in self.live:
                step["actor"] = actor
                return step
        if not self.live:
            return self._gen_new(actor, rng, val, flt)
        w = cfg["weights"]
        kinds = [k for k in w if w[k] > 0]
        for _ in range(40):
            kind = rng.choices(kinds, weights=[w[k] for k in kinds])[0]
            if kind in ("new", "spawn", "load") and len(self.live) >= cfg["replicas"]:
                kind = "drop" if rng.random() < 0.6 else "mutate"
            step = getattr(self, "_gen_" + kind)(actor, rng, val, flt)
            if step is not None:
                step["actor"] = actor
                return step
        return self._gen_mutate(actor, rng, val, flt) or self._gen_new(actor, rng, val, flt)

    def _gen_sweep(self, rng, val, flt):
        sw = self.cfg["sweep"]
        stt = getattr(self, "_sweep_state", None)
        path = "/sim/m0.bin"
        how = sw["how"]
        tname = self.cfg["templates"][0]
        if how == "to_portable_file" and TEMPLATES[tname]["shocks"]:
            how = "save"          # known finding: portable export of models with shocks raises before any I/O
        clean = {"buffer": self.cfg["buffer"], "short_write": None, "short_read": None, "faults": []}
        if stt is None:
            self._sweep_state = stt = {"phase": "new", "k": 0, "sub": 0, "init": None, "prep": 0}

        def save_step(plan):
            return {"op": "save", "args": {"h": stt["h"], "path": path, "how": how, "plan": plan}}

        def load_step(plan):
            return {"op": "load", "out": [self._name()], "args": {"path": path, "plan": plan}}
        extra = [h for h in sorted(self.live) if h != stt.get("h")]
        if stt["phase"] != "new" and stt.get("h") in self.live and extra:
            return {"op": "drop", "args": {"h": extra[0]}}
        if stt["phase"] == "new" or stt.get("h") not in self.live:
            step = self._gen_new("a0", rng, val, flt) if stt["init"] is None else \
                {"op": "new", "actor": "a0", "out": [self._name()], "args": stt["init"]}
            stt["init"] = step["args"]
            stt["h"] = step["out"][0]
            stt["prep"] = 0
            if stt["phase"] == "new":
                stt["phase"] = "probe"
            return step
        cls = TEMPLATES[tname]["cls"]
        if stt["prep"] < 2 and cls == "sim":
            stt["prep"] += 1
            return {"op": "mutate", "args": {"h": stt["h"], "m": {"k": "steady" if stt["prep"] == 1 else "solve"}}}
        if stt["phase"] == "probe":
            stt["phase"] = "probe_size"
            return save_step(clean)
        if stt["phase"] == "probe_size":
            size = max(len(self.fs.files.get(path, b"")), 1)
            stt["chunk"] = max(1, -(-size // sw["target_calls"]))
            stt["phase"] = "count"
            plan = dict(clean)
            if sw["side"] == "write":
                plan["short_write"] = stt["chunk"]
                return save_step(plan)
            plan["short_read"] = stt["chunk"]
            return load_step(plan)
        if stt["phase"] == "count":
            stt["n"] = min(self._last_counts["write" if sw["side"] == "write" else "read"], 40)
            stt["phase"] = "sweep"
            stt["k"] = 0
            self.probes["sweep_workloads"] += 1
        if stt["phase"] == "sweep":
            if stt["k"] >= stt["n"]:
                stt["phase"] = "extra"
                stt["k"] = 0
            else:
                k, sub = stt["k"], stt["sub"]
                if sw["side"] == "write":
                    if sub == 0:
                        kind = ["write_enospc", "write_eio", "crash"][k % 3] if k % 5 else "crash"
                        stt["sub"] = 1
                        self.probes["sweep_fault_points"] += 1
                        return save_step({"buffer": self.cfg["buffer"], "short_write": stt["chunk"], "short_read": None,
                                          "faults": [{"kind": kind, "at": k, "keep": [0, 10, 200, 100000][k % 4]}]})
                    if sub == 1:
                        stt["sub"] = 2
                        return load_step(clean)
                    if sub == 2:
                        stt["sub"] = 3
                        return save_step(clean)
                    stt["sub"] = 0
                    stt["k"] += 1
                    return load_step(clean)
                stt["k"] += 1
                self.probes["sweep_fault_points"] += 1
                return load_step({"buffer": self.cfg["buffer"], "short_write": None, "short_read": stt["chunk"],
                                  "faults": [{"kind": "read_eio", "at": k}]})
        if stt["phase"] == "extra":
            seq = [("open_enoent", 0), ("open_eacces", 0), ("open_enospc", 0), ("close_eio", 0)]
            if stt["k"] >= 2 * len(seq):
                return None
            i, second = divmod(stt["k"], 2)
            stt["k"] += 1
            if second:
                return load_step(clean)
            kind, at = seq[i]
            plan = {"buffer": self.cfg["buffer"], "short_write": None, "short_read": None, "faults": [{"kind": kind, "at": at}]}
            self.probes["sweep_fault_points"] += 1
            return save_step(plan) if sw["side"] == "write" else load_step(plan)
        return None

    def _pick(self, rng, actor, pred=None):
        own = sorted(h for h, r in self.live.items() if r.owner == actor and (pred is None or pred(r)))
        oth = sorted(h for h, r in self.live.items() if r.owner != actor and (pred is None or pred(r)))
        if own and (not oth or rng.random() < 0.65):
            return rng.choice(own)
        if oth:
            return rng.choice(oth)
        return None

    def _draw_params(self, val, tname, nv=1, subset=False, rng=None):
        t = TEMPLATES[tname]
        out = {}
        names = sorted(t["params"])
        if subset and rng is not None:
            names = rng.sample(names, rng.randint(1, len(names)))
        def one(lo, hi):
            # an exact zero is a value like any other (a switched-off channel, a zero target) wherever the range allows it
            if lo <= 0.0 <= hi and val.random() < (0.12 if t.get("shocks") else 0.35):
                return 0.0
            return round(val.uniform(lo, hi), 3)
        for n in names:
            lo, hi = t["params"][n]
            if nv > 1 and val.random() < 0.6:
                k = nv if val.random() < 0.5 else val.randint(1, nv)
                out[n] = [one(lo, hi) for _ in range(k)]
            else:
                out[n] = one(lo, hi)
        return out

    def _gen_new(self, actor, rng, val, flt):
        tname = rng.choice(self.cfg["templates"])
        t = TEMPLATES[tname]
        if t["cls"] == "var":
            init = {"k": "estimate", "seed": val.randint(1, 50), "skip": 0}
        else:
            vals = self._draw_params(val, tname)
            vals.update(t.get("init", {}))
            init = {"k": "assign", "values": vals}
        return {"op": "new", "actor": actor, "out": [self._name()], "args": {"t": tname, "init": init}}

    def _gen_drop(self, actor, rng, val, flt):
        if len(self.live) <= 1:
            return None
        return {"op": "drop", "args": {"h": rng.choice(sorted(self.live))}}

    def _gen_mutate(self, actor, rng, val, flt):
        h = self._pick(rng, actor)
        if h is None:
            return None
        r = self.live[h]
        nv = r.real.num_variants
        cls = r.cls
        x = rng.random()
        if cls == "sim":
            if TEMPLATES[r.tname].get("autovalues") and rng.random() < 0.3:
                # the chain this template is for: flip the log status of the variable the autovalues read, update them
                if rng.random() < 0.4:
                    names = rng.sample(TEMPLATES[r.tname]["logly_names"], rng.randint(1, 2))
                    now = {q.human: bool(q.logly) for q in r.real.quantities}
                    m = {"k": "change_logly", "logly": not now.get(names[0], False), "names": names}
                    if rng.random() < 0.7:
                        # ... and, next, a replica that is used side by side with its source
                        self._pending = [{"op": "spawn", "out": [self._name()],
                                          "args": {"h": h, "kind": rng.choice(["copy", "pickle", "dill"]),
                                                   "then": {"k": rng.choice(["autovalues", "autovalues", "steady"])}}}]
                else:
                    m = {"k": "autovalues"}
            elif x < 0.35:
                m = {"k": "assign", "values": self._draw_params(val, r.tname, nv, subset=True, rng=rng)}
                if rng.random() < (0.3 if nv > 1 else 0.12) and TEMPLATES[r.tname]["shocks"]:
                    # assigning a level to a shock is legal; the assignment rules reset it to zero in every variant
                    m["values"][rng.choice(TEMPLATES[r.tname]["shocks"])] = [1.0] * nv if nv > 1 and rng.random() < 0.5 else 1.0
                if nv > 1 and TEMPLATES[r.tname].get("growth") and TEMPLATES[r.tname].get("autovalues") and rng.random() < 0.5:
                    # growth scenarios: the variants share level and parameters and differ in the steady change only
                    tv = [q.human for q in r.real.quantities if "TRANSITION_VARIABLE" in str(q.kind)]
                    lvl = round(val.uniform(0.5, 2.0), 3)
                    m["values"] = {rng.choice(tv): [{"t": [lvl, round(1.0 + 0.02 * (j + 1), 3)]} for j in range(nv)]}
                    self._pending = [{"op": "mutate", "args": {"h": h, "m": {"k": "solve"}}}]
                    self._growth_just_assigned = True
                    self.probes["growth_scenarios_assigned"] += 1
                elif rng.random() < 0.15:
                    # (level, change) pair for a variable
                    tv = [q.human for q in r.real.quantities if "TRANSITION_VARIABLE" in str(q.kind)]
                    m["values"][rng.choice(tv)] = {"t": [round(val.uniform(0.5, 2.0), 3), round(val.uniform(0.9, 1.1), 3) if TEMPLATES[r.tname].get("growth") else 0.0]}
            elif x < 0.5:
                m = {"k": "alter", "n": self._alter_target(rng, nv)}
            elif x < 0.56 and nv > 1:
                vals = {k: v for k, v in self._draw_params(val, r.tname, 1, subset=True, rng=rng).items()}
                m = {"k": "assign_variant", "v": rng.randrange(nv), "values": vals, "how": rng.choice(["getitem", "get_variant"])}
            elif x < 0.7:
                m = {"k": "steady"}
                if r.tname == "nonlin" and rng.random() < 0.3:
                    # a documented keyword of the nonlinear steady-state solver; tight budgets make the call fail, legally
                    m["settings"] = {"max_iterations": rng.choice([2, 3, 200])}
            elif x < 0.78 and TEMPLATES[r.tname].get("autovalues"):
                m = {"k": "autovalues"}
            elif x < 0.86:
                m = {"k": "solve"}
                if TEMPLATES[r.tname]["shocks"] and rng.random() < 0.35:
                    # the fresh solution is first used through a narrow window (a short anticipation horizon), so that
                    # whatever it memoises is later resumed, not built in one go, by the wider readers
                    self._pending = [{"op": "read", "args": {"h": h, "r": {"k": "simulate", "horizon": rng.choice([1, 2]), "deviation": False,
                                                                           "order": 1, "v": 0, "ant": True}}}]
            elif x < 0.885:
                # the tolerances belong to the model: a replica carries them, and overriding them in one object is
                # nobody else's business
                m = {"k": "override_tolerance", "values": {rng.choice(["eigenvalue", "equality"]): rng.choice([1e-3, 1e-6, 1e-9])}} \
                    if rng.random() < 0.75 else {"k": "reset_tolerance"}
            elif x < 0.91:
                m = {"k": "describe", "s": rng.choice(["", "model A", "renamed"])}
            elif x < 0.95 and TEMPLATES[r.tname].get("logly_names"):
                names = TEMPLATES[r.tname]["logly_names"]
                m = {"k": "change_logly", "logly": rng.random() < 0.5, "names": rng.sample(names, rng.randint(1, min(3, len(names))))}
            else:
                if not TEMPLATES[r.tname]["shocks"]:
                    return None
                m = {"k": "rescale_stds", "factor": rng.choice([0.5, 2.0])} if rng.random() < 0.6 else {"k": "reset_stds"}
        elif cls == "seq":
            if x < 0.4:
                m = {"k": "assign", "values": {k: v for k, v in self._draw_params(val, r.tname, 1, subset=True, rng=rng).items()}}
            elif x < 0.6:
                m = {"k": "assign_variant", "v": rng.randrange(max(nv, 1)), "values": self._draw_params(val, r.tname, 1, subset=True, rng=rng)}
            elif x < 0.8:
                m = {"k": "alter", "n": self._alter_target(rng, nv)}
            elif x < 0.92:
                n = r.real.num_equations
                order = list(range(n))
                rng.shuffle(order)
                m = {"k": "reorder", "order": order}
            else:
                m = {"k": "sequentialize"}
        else:
            if x < 0.5:
                m = {"k": "estimate", "seed": val.randint(1, 50), "skip": rng.choice([0, 0, 2])}
            elif x < 0.75:
                m = {"k": "alter", "n": self._alter_target(rng, nv)}
            else:
                m = {"k": "describe", "s": rng.choice(["", "var A", "renamed"])}
        step = {"op": "mutate", "args": {"h": h, "m": m}}
        growth = getattr(self, "_growth_just_assigned", False)
        self._growth_just_assigned = False
        if not growth and cls == "sim" and nv > 1 and m["k"] == "assign" and any(isinstance(v, list) for v in m["values"].values()) and rng.random() < 0.4:
            # the variants have just been given different values: the operations that work variant by variant come next
            # (the split check after each of them compares every variant with a single-variant model of its own)
            self._pending = [{"op": "mutate", "args": {"h": h, "m": {"k": "steady"}}}, {"op": "mutate", "args": {"h": h, "m": {"k": "solve"}}}]
        if nv > 1 and m["k"] in ("assign", "assign_variant", "alter") and rng.random() < 0.3:
            # right after the variants were given different values: the pieces of an iteration, kept beyond the loop
            step["args"]["iterate_after"] = True
        return step

    def _alter_target(self, rng, nv):
        # growing a model that already has several (different) variants is the case that tells "clone the last" from
        # "clone the first": make it a regular event instead of one alter in six
        if nv >= 2 and rng.random() < 0.45:
            return nv + 1
        return rng.randint(1, self.cfg["max_nv"])

    def _gen_read(self, actor, rng, val, flt):
        h = self._pick(rng, actor)
        if h is None:
            return None
        r = self.live[h]
        if r.cls == "sim":
            k = rng.choice(["simulate", "simulate", "acov", "getters", "kalman", "kalman", "view", "iterate"])
            rd = {"k": k, "horizon": rng.choice([0, 1, 2, 4, 7]), "deviation": rng.random() < 0.3, "order": rng.choice([0, 1, 3]),
                  "v": rng.randrange(3), "ant": rng.random() < 0.6}
            if k == "acov" and not TEMPLATES[r.tname]["shocks"]:
                rd["k"] = "getters"
            if k == "kalman" and not TEMPLATES[r.tname]["measurement"]:
                rd["k"] = "simulate"
        elif r.cls == "seq":
            rd = {"k": rng.choice(["simulate", "getters", "view", "iterate"]), "order": rng.choice(["dates_equations", "equations_dates"]), "v": rng.randrange(3)}
        else:
            rd = {"k": rng.choice(["moments", "view", "iterate", "simulate", "simulate"]), "v": rng.randrange(3),
                  "deviation": rng.random() < 0.5, "ant": rng.random() < 0.5}
        return {"op": "read", "args": {"h": h, "r": rd}}

    def _gen_spawn(self, actor, rng, val, flt):
        h = self._pick(rng, actor)
        if h is None:
            return None
        r = self.live[h]
        kind = rng.choice(ADAPTERS[r.cls].spawn_kinds)
        step = {"op": "spawn", "out": [self._name()], "args": {"h": h, "kind": kind}}
        if kind != "portable" and r.cls != "var" and rng.random() < 0.4:
            # lock step: the same next operation on the source and on its replica must leave them equal again - what a
            # replica recompiles for itself (and the source keeps from before) only shows when it is used
            step["args"]["then"] = self._follow_up(rng, val, r)
        elif kind in ("copy", "deepcopy") and r.cls == "sim" and rng.random() < 0.4:
            # the first thing done to a fresh copy is a change of a setting that lives outside the variants
            self._pending = [{"op": "mutate", "args": {"h": step["out"][0], "m": {"k": "override_tolerance", "values": {rng.choice(["eigenvalue", "equality"]): rng.choice([1e-3, 1e-6, 1e-9])}}}}]
        return step

    def _follow_up(self, rng, val, r):
        t = TEMPLATES[r.tname]
        if r.cls == "seq":
            return rng.choice([{"k": "sequentialize"}, {"k": "assign", "values": self._draw_params(val, r.tname, 1, subset=True, rng=rng)}])
        pool = [{"k": "steady"}, {"k": "solve"}, {"k": "assign", "values": self._draw_params(val, r.tname, 1, subset=True, rng=rng)}]
        if t["shocks"]:
            pool.append({"k": "reset_stds"})
        if t.get("autovalues"):
            pool += [{"k": "autovalues"}] * 3
        return rng.choice(pool)

    def _gen_plan(self, flt, reading=False):
        cfg = self.cfg
        plan = {"buffer": cfg["buffer"], "short_write": None, "short_read": None, "faults": []}
        if flt.random() < cfg["p_short"]:
            plan["short_write"] = flt.choice([64, 500, 3000])
        if flt.random() < cfg["p_short"]:
            plan["short_read"] = flt.choice([16, 200, 1000])
        if flt.random() < cfg.get("p_eintr", 0.0):
            plan["eintr"] = flt.choice([1, 2, 3, 7])      # every n-th raw read/write is interrupted once before it transfers anything
        if cfg["fault_kinds"] and flt.random() < cfg["p_fault"]:
            if reading:
                kinds = [k for k in cfg["fault_kinds"] if k.startswith("open") or k in ("read_eio", "close_eio")]
            else:
                kinds = [k for k in cfg["fault_kinds"] if k.startswith("open") or k in ("write_enospc", "write_eio", "close_eio", "rename_eio", "crash")]
            if kinds:
                kind = flt.choice(sorted(kinds))
                at = 0 if flt.random() < 0.5 else flt.randint(0, 6)
                fault = {"kind": kind, "at": at}
                if kind in ("write_enospc", "write_eio", "crash"):
                    fault["keep"] = flt.choice([0, 10, 200, 100000])
                plan["faults"].append(fault)
        return plan

    def _gen_save(self, actor, rng, val, flt):
        h = self._pick(rng, actor)
        if h is None:
            return None
        r = self.live[h]
        how = rng.choice(ADAPTERS[r.cls].file_kinds)
        return {"op": "save", "args": {"h": h, "path": f"/sim/m{rng.randrange(self.cfg['paths'])}.bin", "how": how,
                                       "plan": self._gen_plan(flt), "pathlike": rng.random() < 0.2}}

    def _gen_load(self, actor, rng, val, flt):
        paths = sorted(self.disk)
        if not paths:
            return None
        return {"op": "load", "out": [self._name()], "args": {"path": rng.choice(paths), "plan": self._gen_plan(flt, reading=True),
                                                              "pathlike": rng.random() < 0.2}}

    def _gen_split(self, actor, rng, val, flt):
        h = self._pick(rng, actor, lambda r: r.real.num_variants > 1)
        if h is None:
            return None
        step = {"op": "split", "args": {"h": h, "k": rng.randrange(self.live[h].real.num_variants)}}
        r = self.live[h]
        if rng.random() < 0.4:
            kinds = [k for k in ADAPTERS[r.cls].spawn_kinds if k in ("copy", "deepcopy", "pickle", "dill")]
            step["args"]["view_replica"] = rng.choice(kinds)
            if r.cls != "var":
                step["args"]["values"] = self._draw_params(val, r.tname, 1, subset=True, rng=rng)
        return step

    def _gen_replay(self, actor, rng, val, flt):
        h = self._pick(rng, actor)
        if h is None:
            return None
        return {"op": "replay", "args": {"h": h}}

    def _gen_cleanroom(self, actor, rng, val, flt):
        if self.cleanrooms >= 1:
            return None
        h = self._pick(rng, actor)
        if h is None:
            return None
        return {"op": "cleanroom", "args": {"h": h}}

    def _gen_handoff(self, actor, rng, val, flt):
        if self.handoffs >= 1:
            return None
        h = self._pick(rng, actor)
        if h is None:
            return None
        return {"op": "handoff", "args": {"h": h, "hashseed": rng.randint(1, 100000)}}

    # -- application ------------------------------------------------------------------------------
    def _apply(self, step):
        op = step["op"]
        self.seq = step.get("seq", self.seq + 1)
        self.stats["op." + op] += 1
        if op in ("mutate", "save"):
            self.mutating_steps += 1
        with warnings.catch_warnings():
            warnings.simplefilter("ignore")
            with np.errstate(all="ignore"):
                out = getattr(self, "_do_" + op)(step, step["args"])
        self.max_live = max(self.max_live, len(self.live))
        self.stats["outcome." + out.split(":")[0]] += 1
        return out

    def _isolation(self, opname, pred, exclude=()):
        for h, r in self.live.items():
            if h in exclude:
                continue
            d = self._digest(r)
            if d != self.digests[h]:
                raise Violation("isolation", opname, pred, "", f"replica {h} ({r.cls}, origin {r.origin}) changed although the operation was applied to another object", handles=(h,))

    def _pred(self, r: Replica):
        parts = [f"class={r.cls}"]
        if r.cls == "sim" and TEMPLATES[r.tname]["shocks"]:
            parts.append("has_transition_shocks")
        return ",".join(parts)

    def _register(self, h, r: Replica):
        self.live[h] = r
        self.digests[h] = self._digest(r)

    def _do_new(self, step, a):
        tname = a["t"]
        cls = TEMPLATES[tname]["cls"]
        ad = ADAPTERS[cls]
        m = ad.build(tname)
        r = Replica(m, tname, cls, [], step.get("actor", "a0"), "root")
        self._mutate(r, a["init"])
        self._isolation("new", "")
        self._register(step["out"][0], r)
        return "ok"

    def _do_drop(self, step, a):
        self.retire((a["h"],))
        return "ok"

    def _mutate(self, r: Replica, m):
        """Apply a mutator to a replica and extend its logical log; exceptions are part of the logical outcome."""
        ad = ADAPTERS[r.cls]
        try:
            r.real = ad.mutate(r.real, m)
            raised = None
        except Exception as e:
            if isinstance(e, (Violation, HarnessError)):
                raise
            strip_traceback(e)
            raised = type(e).__name__
        r.log.append(_copy.deepcopy(m))
        r.raised.append(raised)
        return raised

    def _do_mutate(self, step, a):
        h = a["h"]
        r = self.live[h]
        m = a["m"]
        pred = self._pred(r)
        if m["k"] in ("steady", "solve") and r.origin != "root" and not any(op["k"] == m["k"] for op in r.log):
            self.probes["first_" + m["k"] + "_after_spawn"] += 1
        before = self._cheap(r) if m["k"] in ("alter", "assign_variant") else None
        raised = self._mutate(r, m)
        opname = "mutate." + m["k"]
        self._isolation(opname, pred, exclude=(h,))
        self.digests[h] = self._digest(r)
        if before is not None and raised is None and m["k"] == "alter":
            self._check_alter(opname, pred, before, self._cheap(r), r)
        if before is not None and raised is None and m["k"] == "assign_variant":
            after = self._cheap(r)
            v = m["v"] % before["nv"]
            for k in range(before["nv"]):
                if k != v:
                    d = obs_diff(project(before["params"], k), project(after["params"], k))
                    if d:
                        raise Violation("split", opname, pred, "", f"assigning through the view of variant {v} changed variant {k}: {d}")
        if m["k"] in ("steady", "solve", "estimate") and raised is None and r.real.num_variants > 1:
            # the variant clause right where it matters: after an operation that works variant by variant
            for k in range(r.real.num_variants):
                self._split_check(r, k, opname)
        if a.get("iterate_after") and raised is None and r.real.num_variants > 1:
            self._check_iteration(opname + ".then_iterate", pred, r)
            self._isolation(opname + ".then_iterate", pred)
        if m["k"] == "alter":
            self.probes["variant_count_altered"] += 1
        if m["k"] == "assign" and any(isinstance(v, list) and len(v) < r.real.num_variants for v in m["values"].values()):
            self.probes["assign_list_shorter_than_variants"] += 1
        return "ok" if raised is None else "raised:" + raised

    def _check_iteration(self, opname, pred, r):
        """Splitting a model by iteration: the k-th piece, kept after the loop, is a single-variant model holding variant k."""
        keys = {"sim": ("params", "stds", "levels", "changes", "solution"), "seq": ("params",), "var": ("system", "fitted")}[r.cls]
        pieces = list(r.real)
        whole = self._cheap(r)
        if len(pieces) != whole["nv"]:
            raise Violation("split", opname, pred, "", f"iterating a model with {whole['nv']} variants yields {len(pieces)} pieces")
        ad = ADAPTERS[r.cls]
        for k, piece in enumerate(pieces):
            c = ad.cheap(piece)
            if c["nv"] != 1:
                raise Violation("split", opname, pred, "", f"piece {k} of the iteration has {c['nv']} variants")
            for key in keys:
                d = obs_diff(project(c[key], 0), project(whole[key], k))
                if d:
                    raise Violation("split", opname, pred, "", f"piece {k} kept from iterating over the model does not hold variant {k}: {key}{d}")
        if whole["nv"] > 1:
            self.probes["iteration_pieces_checked"] += 1

    def _check_alter(self, opname, pred, before, after, r):
        """alter_num_variants keeps the first variants as they are and clones the last one into the new slots."""
        keys = {"sim": ("params", "stds", "levels", "changes", "solution"), "seq": ("params",), "var": ("system", "fitted")}[r.cls]
        n0, n1 = before["nv"], after["nv"]
        for k in range(n1):
            src = min(k, n0 - 1)
            for key in keys:
                d = obs_diff(project(before[key], src), project(after[key], k))
                if d:
                    raise Violation("split", opname, pred, "", f"after altering {n0} -> {n1} variants, variant {k} should hold what variant {src} held, but differs in {key}{d}")

    def _do_read(self, step, a):
        h = a["h"]
        r = self.live[h]
        rd = a["r"]
        pred = self._pred(r)
        opname = "read." + rd["k"]
        try:
            if rd["k"] == "iterate":
                self._check_iteration(opname, pred, r)
            else:
                ADAPTERS[r.cls].read(r.real, r.tname, rd)
            out = "ok"
        except Exception as e:
            if isinstance(e, (Violation, HarnessError)):
                raise
            strip_traceback(e)
            out = "raised:" + type(e).__name__
        # a read-only operation changes nobody, including its receiver
        self._isolation(opname, pred)
        if rd["k"] == "simulate" and r.cls == "sim":
            self.probes["anticipated_horizon_%d" % rd["horizon"]] += 1
        return out

    # -- spawn ------------------------------------------------------------------------------------
    def _spawn_equivalence(self, opname, pred, parent_obs, child: Replica, what):
        pc, pd = parent_obs
        want = {"sim": zoo.ir.Simultaneous, "seq": zoo.ir.Sequential, "var": zoo.ir.RedVAR}[child.cls]
        if type(child.real) is not want:
            raise Violation("spawn", opname, pred, "", f"{what} is a {type(child.real).__name__}, its source is a {want.__name__}")
        d = obs_diff(pc, self._cheap(child))
        if d:
            raise Violation("spawn", opname, pred, "", f"{what} differs from its source in stored state: {d}")
        d = obs_diff(pd, self._deep(child), RTOL)
        if d:
            raise Violation("spawn", opname, pred, "", f"{what} behaves differently from its source: {d}")

    def _do_spawn(self, step, a):
        h = a["h"]
        r = self.live[h]
        kind = a["kind"]
        pred = self._pred(r)
        opname = "spawn." + kind
        ks = [op["k"] for op in r.log]
        if "assign" in ks and "solve" not in ks:
            self.probes["spawn_before_first_solve"] += 1
        m = r.real
        try:
            if kind == "copy":
                c = m.copy()
            elif kind == "pickle":
                c = pickle.loads(pickle.dumps(m))
            elif kind == "dill":
                import dill
                c = dill.loads(dill.dumps(m))
            elif kind == "deepcopy":
                c = _copy.deepcopy(m)
            elif kind == "pickle_bytes":
                c = pickle.loads(m.to_pickle_bytes())
            elif kind == "dill_bytes":
                import dill
                c = dill.loads(m.to_dill_bytes())
            elif kind == "portable":
                p = m.to_portable()
                c = type(m).from_portable(json.loads(json.dumps(p)))
            else:
                raise HarnessError(kind)
        except Exception as e:
            if isinstance(e, (Violation, HarnessError)):
                raise
            strip_traceback(e)
            self._isolation(opname, pred)
            klass = "portable" if kind == "portable" else "crash"
            raise Violation(klass, opname, pred, type(e).__name__, f"{kind} of a {r.cls} model raised {type(e).__name__}: {str(e)[:160]}")
        if c is m:
            raise Violation("alias", opname, pred, "", f"{kind} returned the same object")
        child = Replica(c, r.tname, r.cls, _copy.deepcopy(r.log), step.get("actor", "a0"), kind, r.raised)
        if kind == "portable":
            ad = ADAPTERS[r.cls]
            d = obs_diff(ad.portable_fields(m), ad.portable_fields(c))
            if d:
                raise Violation("portable", opname, pred, "", f"portable round trip changed {d}")
            child.log.append({"k": "portable_roundtrip"})
            child.raised.append(None)
            self.probes["portable_roundtrip_checked"] += 1
        else:
            self._spawn_equivalence(opname, pred, (self._cheap(r), self._deep(r)), child, f"{kind} of {h}")
        self._isolation(opname, pred)
        self._register(step["out"][0], child)
        if a.get("then"):
            self._lockstep(opname, pred, h, step["out"][0], a["then"])
        return "ok"

    def _lockstep(self, opname, pred, hp, hc, m):
        parent, child = self.live[hp], self.live[hc]
        opname = f"{opname}.then.{m['k']}"
        rp = self._mutate(parent, m)
        rc = self._mutate(child, m)
        self.probes["lockstep_after_spawn"] += 1
        if rp != rc:
            raise Violation("spawn", opname, pred, "", f"the same {m['k']} on the source and on its replica: the source {'raised ' + rp if rp else 'returned'}, the replica {'raised ' + rc if rc else 'returned'}")
        d = obs_diff(self._cheap(parent), self._cheap(child), RTOL)
        if d:
            raise Violation("spawn", opname, pred, "", f"after the same {m['k']} on both, the replica differs from its source in stored state: {d}")
        d = obs_diff(self._deep(parent), self._deep(child), RTOL)
        if d:
            raise Violation("spawn", opname, pred, "", f"after the same {m['k']} on both, the replica behaves differently from its source: {d}")
        self._isolation(opname, pred, exclude=(hp, hc))
        self.digests[hp] = self._digest(parent)
        self.digests[hc] = self._digest(child)

    # -- files ------------------------------------------------------------------------------------
    def _run_io(self, thunk, plan):
        self.fs.begin_step(plan)
        status = "crashed"
        try:
            try:
                r = thunk()
                status = "ok"
            except simfs.SimCrash as e:
                strip_traceback(e)
                r, status = e, "crashed"
            except Exception as e:
                if isinstance(e, (Violation, HarnessError)):
                    raise
                strip_traceback(e)
                r, status = e, "raised"
        finally:
            self._last_counts = dict(self.fs.counts)
            # only a crash kills the handles of the step; what a merely failed save or load left open stays real
            fired = self.fs.end_step(crashed=(status == "crashed"))
        for k in fired:
            self.faults_fired[k] += 1
        return status, r, fired

    def _saver(self, m, how, path):
        ir = zoo.ir
        if how == "save":
            return lambda: ir.save(path, m)
        if how == "save_dill":
            return lambda: ir.save_dill(m, path)
        if how == "save_pickle":
            return lambda: ir.save_pickle(m, path)
        if how == "to_pickle_file":
            return lambda: m.to_pickle_file(path)
        if how == "to_dill_file":
            return lambda: m.to_dill_file(path)
        if how == "to_portable_file":
            return lambda: m.to_portable_file(path)
        raise HarnessError(how)

    def _loader(self, rec, path):
        ir = zoo.ir
        how = rec["how"]
        if how in ("save",):
            return lambda: ir.load(path)
        if how == "save_dill":
            return lambda: ir.load_dill(path)
        if how == "save_pickle":
            return lambda: ir.load_pickle(path)
        if how == "to_pickle_file":
            return lambda: ir.Simultaneous.from_pickle_file(path)
        if how == "to_dill_file":
            return lambda: ir.Simultaneous.from_dill_file(path)
        if how == "to_portable_file":
            return lambda: ir.Simultaneous.from_portable_file(path)
        raise HarnessError(how)

    def _do_save(self, step, a):
        h = a["h"]
        r = self.live[h]
        path, how, plan = a["path"], a["how"], a["plan"]
        pred = self._pred(r)
        opname = "save." + how
        before = {p: bytes(b) for p, b in self.fs.files.items()}
        if path in self.disk:
            self.probes["save_over_existing_file"] += 1
            if self.disk[path] == "torn":
                self.probes["save_over_torn_file"] += 1
        status, res, fired = self._run_io(self._saver(r.real, how, __import__("pathlib").Path(path) if a.get("pathlike") else path), plan)
        faulted = any(k not in ("short_write", "short_read", "eintr") for k in fired)
        for p, b in before.items():
            if p != path and bytes(self.fs.files.get(p, b"")) != b:
                raise Violation("isolation", opname, pred, "", f"saving to {path} changed {p}")
        if status == "crashed":
            self.probes["crash_during_save"] += 1
            self.disk[path] = "torn"
            actor = r.owner
            for hh in [x for x, rr in self.live.items() if rr.owner == actor]:
                self.retire((hh,))
            self._isolation(opname, pred)
            return "crashed"
        if status == "raised":
            if path in self.fs.files:
                self.disk[path] = "torn"
            else:
                self.disk.pop(path, None)
            if not faulted:
                self._isolation(opname, pred)
                klass = "portable" if how == "to_portable_file" else "crash"
                raise Violation(klass, opname, pred, type(res).__name__, f"{how} of a {r.cls} model raised {type(res).__name__}: {str(res)[:160]}")
            self.probes["save_failed_under_fault"] += 1
            if "close_eio" in fired:
                self.probes["fault_surfaced_in_close"] += 1
            # a failed save is not a logical operation: nobody changed, the saver included
            self._isolation(opname, pred)
            return "io_error:" + type(res).__name__
        if faulted:
            self.probes["save_completed_despite_fault"] += 1
        self._isolation(opname, pred)
        if path not in self.fs.files:
            self.disk.pop(path, None)
            raise Violation("durability", opname, pred, "", f"{how} returned normally but there is no file {path}")
        if how != "to_portable_file" and len(before.get(path, b"")) > 0:
            # a completed save IS the file: nothing of an earlier, longer file may follow the saved object (pickle and
            # dill readers stop at the end of the first object and would never notice)
            import io as _io
            data = bytes(self.fs.files[path])
            bio = _io.BytesIO(data)
            try:
                if "pickle" in how:
                    pickle.Unpickler(bio).load()
                else:
                    import dill
                    dill.Unpickler(bio).load()
                rest = len(data) - bio.tell()
            except Exception as e:
                strip_traceback(e)
                rest = 0        # unreadable files are the business of the load oracles
            if rest:
                self.disk[path] = "torn"
                raise Violation("durability", opname, pred, "", f"{rest} bytes follow the saved object in {path}: residue of the earlier file ({len(before[path])} bytes) under a completed save ({len(data)} bytes)")
            self.probes["save_over_longer_or_equal_file_checked"] += 1
        rec = {"how": how, "tname": r.tname, "cls": r.cls, "log": _copy.deepcopy(r.log), "raised": list(r.raised),
               "cheap": self._cheap(r), "deep": self._deep(r), "pred": pred}
        if how == "to_portable_file":
            rec["portable"] = ADAPTERS[r.cls].portable_fields(r.real)
        self.disk[path] = rec
        return "ok"

    def _do_load(self, step, a):
        path, plan = a["path"], a["plan"]
        rec = self.disk.get(path)
        if rec is None:
            return "skipped"
        if rec == "torn":
            # the serialiser that wrote the torn file is unknown to the reader; try the generic loader
            status, res, fired = self._run_io(lambda: zoo.ir.load(path), plan)
            self.probes["torn_load_" + ("returned" if status == "ok" else "raised")] += 1
            self._isolation("load.torn", "")
            return "torn:" + status
        pred = rec["pred"]
        opname = "load." + rec["how"]
        status, res, fired = self._run_io(self._loader(rec, __import__("pathlib").Path(path) if a.get("pathlike") else path), plan)
        faulted = any(k not in ("short_write", "short_read", "eintr") for k in fired)
        self._isolation(opname, pred)
        if status == "crashed":
            return "crashed"
        if status == "raised":
            if faulted:
                self.probes["load_failed_under_fault"] += 1
                return "io_error:" + type(res).__name__
            raise Violation("durability", opname, pred, type(res).__name__, f"loading a completed file written by {rec['how']} raised {type(res).__name__}: {str(res)[:160]}")
        if faulted:
            self.probes["load_completed_despite_fault"] += 1
        child = Replica(res, rec["tname"], rec["cls"], _copy.deepcopy(rec["log"]), step.get("actor", "a0"), "file." + rec["how"], rec["raised"])
        self._check_loaded(opname, pred, rec, child, path)
        self._register(step["out"][0], child)
        return "ok"

    def _check_loaded(self, opname, pred, rec, child, path):
        want = {"sim": zoo.ir.Simultaneous, "seq": zoo.ir.Sequential, "var": zoo.ir.RedVAR}[rec["cls"]]
        if type(child.real) is not want:
            raise Violation("spawn", opname, pred, "", f"{path} was written from a {want.__name__} but loads as {type(child.real).__name__}")
        try:
            self._cheap(child)
        except Exception as e:
            strip_traceback(e)
            raise Violation("spawn", opname, pred, type(e).__name__, f"the model loaded from {path} cannot be observed through the public getters: {type(e).__name__}: {str(e)[:120]}")
        if rec["how"] == "to_portable_file":
            d = obs_diff(rec["portable"], ADAPTERS[child.cls].portable_fields(child.real))
            if d:
                raise Violation("portable", opname, pred, "", f"portable file round trip changed {d}")
            child.log.append({"k": "portable_roundtrip"})
            child.raised.append(None)
            return
        d = obs_diff(rec["cheap"], self._cheap(child))
        if d:
            raise Violation("spawn", opname, pred, "", f"model loaded from {path} differs from the saved one in stored state: {d}")
        d = obs_diff(rec["deep"], self._deep(child), RTOL)
        if d:
            raise Violation("spawn", opname, pred, "", f"model loaded from {path} behaves differently from the saved one: {d}")

    # -- fresh replay, split, hand-off ------------------------------------------------------------
    def _fresh(self, tname, cls, log):
        ad = ADAPTERS[cls]
        m = ad.build(tname)
        raised = []
        for op in log:
            try:
                m = ad.mutate(m, op)
                raised.append(None)
            except Exception as e:
                strip_traceback(e)
                raised.append(type(e).__name__)
        return m, raised

    def _check_replay(self, opname, pred, r: Replica):
        m, raised = self._fresh(r.tname, r.cls, r.log)
        ref = Replica(m, r.tname, r.cls, r.log, r.owner, "fresh")
        if raised != r.raised:
            raise Violation("replay", opname, pred, "", f"mutators raised {r.raised} on the replica but {raised} when its logical log is replayed on a fresh model")
        d = obs_diff(self._cheap(ref), self._cheap(r), RTOL)
        if d:
            raise Violation("replay", opname, pred, "", f"replica (origin {r.origin}) differs from the fresh replay of its own logical log in stored state: {d}")
        d = obs_diff(self._deep(ref), self._deep(r), RTOL)
        if d:
            raise Violation("replay", opname, pred, "", f"replica (origin {r.origin}) behaves differently from the fresh replay of its own logical log: {d}")

    def _do_replay(self, step, a):
        r = self.live[a["h"]]
        self._check_replay("replay", self._pred(r), r)
        self._isolation("replay", self._pred(r))
        self.stats["fresh_replays"] += 1
        return "ok"

    @staticmethod
    def _ancestry(log, k):
        """For the final variant k: the variant index it descends from before each operation of the log."""
        nvb = []
        nv = 1
        for op in log:
            nvb.append(nv)
            if op["k"] == "alter":
                nv = max(1, op["n"])
        cur = k
        anc = [0] * len(log)
        for i in range(len(log) - 1, -1, -1):
            op = log[i]
            if op["k"] == "alter":
                p = nvb[i]
                if max(1, op["n"]) > p and cur >= p:
                    cur = p - 1
            anc[i] = cur
        return nvb, anc

    def _do_split(self, step, a):
        h = a["h"]
        r = self.live[h]
        out = self._split_check(r, a["k"], "split")
        if out == "ok":
            self._isolation("split", self._pred(r))
        if a.get("view_replica") and a["k"] < r.real.num_variants and r.real.num_variants > 1:
            self._view_replica(r, a["k"], a["view_replica"], a.get("values") or {})
        return out

    def _view_replica(self, r, k, how, values):
        """A replica taken from the view model[k] (a second-generation object: the view shares variant k with its parent)
        is a single-variant model that holds variant k and shares nothing with the parent."""
        pred = self._pred(r)
        opname = "split.view." + how
        ad = ADAPTERS[r.cls]
        try:
            view = r.real[k] if r.cls == "sim" else r.real.get_variant(k)
            if how == "copy":
                c = view.copy()
            elif how == "deepcopy":
                c = _copy.deepcopy(view)
            elif how == "pickle":
                c = pickle.loads(pickle.dumps(view))
            else:
                import dill
                c = dill.loads(dill.dumps(view))
        except Exception as e:
            strip_traceback(e)
            raise Violation("crash", opname, pred, type(e).__name__, f"{how} of the view of variant {k} raised {type(e).__name__}: {str(e)[:160]}")
        keys = {"sim": ("params", "stds", "levels", "changes", "solution"), "seq": ("params",), "var": ("system", "fitted")}[r.cls]
        cc, pc = ad.cheap(c), self._cheap(r)
        if cc["nv"] != 1:
            raise Violation("split", opname, pred, "", f"the replica of a view has {cc['nv']} variants")
        for key in keys:
            d = obs_diff(project(cc[key], 0), project(pc[key], k), RTOL)
            if d:
                raise Violation("split", opname, pred, "", f"{how} of the view of variant {k} does not hold variant {k}: {key}{d}")
        # independence in both directions: a change of the replica reaches nobody (the parent least of all)
        if values:
            try:
                ad.mutate(c, {"k": "assign", "values": values})
            except Exception as e:
                strip_traceback(e)
        self._isolation(opname, pred)
        self.probes["replica_of_a_view_checked"] += 1

    def _split_check(self, r, k, opname):
        nv = r.real.num_variants
        if k >= nv or nv < 2:
            return "skipped"
        if any(op["k"] == "portable_roundtrip" for op in r.log):
            return "skipped"
        if any(x is not None for x in r.raised):
            # a mutator that raised on the multi-variant model stopped at the failing variant and left the
            # later ones unprocessed; the variant clause only speaks about operations that completed
            self.probes["split_skipped_after_raising_mutator"] += 1
            return "skipped"
        pred = self._pred(r)
        ad = ADAPTERS[r.cls]
        nvb, anc = self._ancestry(r.log, k)
        slog = []
        for i, op in enumerate(r.log):
            j = anc[i]
            if op["k"] == "alter":
                continue
            if op["k"] == "assign_variant":
                if op["v"] % nvb[i] == j:
                    slog.append({"k": "assign", "values": op["values"]})
                continue
            if op["k"] == "assign" and r.cls == "sim":
                vals = {n: (v[min(j, len(v) - 1)] if isinstance(v, list) else v) for n, v in op["values"].items()}
                slog.append({"k": "assign", "values": vals})
                continue
            slog.append(op)
        m, sraised = self._fresh(r.tname, r.cls, slog)
        if any(x is not None for x in sraised):
            raise Violation("split", opname, pred, "", f"operations that completed on the {nv}-variant model raise {sraised} on the single-variant model holding variant {k}'s values")
        single = Replica(m, r.tname, r.cls, slog, r.owner, "singleton")
        keys = {"sim": ("params", "stds", "levels", "changes", "solution"), "seq": ("params",), "var": ("system", "fitted")}[r.cls]
        multi_c, single_c = self._cheap(r), self._cheap(single)
        for key in keys:
            d = obs_diff(project(single_c[key], 0), project(multi_c[key], k), RTOL)
            if d:
                raise Violation("split", opname, pred, "", f"variant {k} of {nv} differs from the single-variant model with its values in {key}{d}")
        sdeep, mdeep = self._deep(single), self._deep(r)
        for key in list(mdeep):
            if isinstance(mdeep[key], str) and mdeep[key].startswith("EXC:") and isinstance(sdeep.get(key), str) and sdeep[key].startswith("EXC:"):
                # the call fails on both: a multi-variant call may wrap the failure of one variant in another exception
                # class than the single-variant call raises; the variant clause speaks about operations that completed
                mdeep[key] = sdeep[key] = "EXC"
            if isinstance(mdeep[key], str) and mdeep[key].startswith("EXC:") and not isinstance(sdeep.get(key), str):
                # the multi-variant call failed as a whole (one failing variant fails the call): the variant
                # clause speaks about operations that completed
                self.probes["split_key_skipped_multi_variant_call_failed"] += 1
                mdeep.pop(key)
                sdeep.pop(key, None)
        d = obs_diff(project(sdeep, 0), project(mdeep, k), RTOL)
        if d:
            raise Violation("split", opname, pred, "", f"variant {k} of {nv} behaves differently from the single-variant model with its values: {d}")
        self.stats["split_checks"] += 1
        if nv >= 3 and k >= 2:
            self.probes["split_check_on_third_variant"] += 1
        return "ok"

    def _cleanroom(self, opname, pred, r: Replica, why=""):
        """
        The replica against its own logical log replayed in a FRESH interpreter, where nothing else has ever
        happened: whatever reached the replica through process-global state (module-level defaults or caches
        written by operations on OTHER objects) is absent there.
        """
        doc = {"tname": r.tname, "cls": r.cls, "log": r.log, "horizon": self.cfg["horizon"]}
        fd, path = tempfile.mkstemp(prefix="irsim-cleanroom-", suffix=".json", dir=os.environ.get("TMPDIR", "/tmp"))
        try:
            with os.fdopen(fd, "w") as f:
                json.dump(doc, f)
            cp = subprocess.run([sys.executable, "-W", "ignore", "-m", "sim.handoff", "--log", path],
                                cwd=VERIF, env=dict(os.environ), capture_output=True, text=True, timeout=300)
        finally:
            try:
                os.unlink(path)
            except OSError:
                pass
        self.cleanrooms += 1
        self.probes["cleanroom_comparisons"] += 1
        if cp.returncode != 0:
            raise HarnessError(f"clean-room interpreter failed: {cp.stderr[-400:]}")
        other = json.loads(cp.stdout.strip().splitlines()[-1])
        mine = json.loads(json.dumps({"cheap": self._cheap(r), "deep": self._deep(r), "raised": r.raised}))
        if other["raised"] != mine["raised"]:
            raise Violation("cleanroom", opname, pred, "", f"mutators raised {mine['raised']} on the replica but {other['raised']} when its logical log is replayed in a fresh interpreter{why}")
        d = obs_diff(other["cheap"], mine["cheap"], RTOL) or obs_diff(other["deep"], mine["deep"], RTOL)
        if d:
            raise Violation("cleanroom", opname, pred, "", f"replica (origin {r.origin}) differs from its logical log replayed in a fresh interpreter{why}: {d}")

    def _do_cleanroom(self, step, a):
        r = self.live[a["h"]]
        self._cleanroom("cleanroom", self._pred(r), r)
        self._isolation("cleanroom", self._pred(r))
        return "ok"

    def _do_handoff(self, step, a):
        h = a["h"]
        r = self.live[h]
        pred = self._pred(r)
        import dill
        data = dill.dumps(r.real)
        fd, path = tempfile.mkstemp(prefix="irsim-handoff-", suffix=".dill", dir=os.environ.get("TMPDIR", "/tmp"))
        try:
            with os.fdopen(fd, "wb") as f:
                f.write(data)
            env = dict(os.environ)
            env["PYTHONHASHSEED"] = str(a["hashseed"])
            cp = subprocess.run([sys.executable, "-W", "ignore", "-m", "sim.handoff", path, r.tname, r.cls, str(self.cfg["horizon"])],
                                cwd=VERIF, env=env, capture_output=True, text=True, timeout=240)
        finally:
            try:
                os.unlink(path)
            except OSError:
                pass
        self.handoffs += 1
        if cp.returncode != 0:
            raise Violation("handoff", "handoff", pred, "", f"second interpreter failed to load and observe the model: {cp.stderr[-300:]}")
        other = json.loads(cp.stdout.strip().splitlines()[-1])
        mine = json.loads(json.dumps({"cheap": self._cheap(r), "deep": self._deep(r)}))
        d = obs_diff(mine["cheap"], other["cheap"]) or obs_diff(mine["deep"], other["deep"], RTOL)
        if d:
            raise Violation("handoff", "handoff", pred, "", f"model handed to an interpreter with PYTHONHASHSEED={a['hashseed']} differs: {d}")
        self._isolation("handoff", pred)
        self.probes["handoff_across_hash_seeds"] += 1
        return "ok"

    # -- end of run -------------------------------------------------------------------------------
    def finish(self):
        with warnings.catch_warnings():
            warnings.simplefilter("ignore")
            with np.errstate(all="ignore"):
                self._finish()

    def _known_or_raise(self, v):
        e = self.known.match(v) if self.known is not None else None
        if e is None:
            raise v
        self.known_hits[v.signature] += 1
        self.known_examples.setdefault(v.signature, {"what": e.get("what", ""), "message": v.message})

    def _finish(self):
        # process-global irispie state written during this run is not a verdict (a well-keyed cache is legitimate),
        # it is the trigger for the clean-room comparison of (up to two) live replicas
        g1 = globalstate.snapshot()
        changed = globalstate.diff(self._g0, g1)
        if changed:
            self.probes["process_global_state_changed"] += 1
            why = f" (process-global state written during the run: {changed[:3]})"
            for h, r in sorted(self.live.items())[:2]:
                try:
                    self._cleanroom("finish.cleanroom", self._pred(r), r, why)
                except Violation as v:
                    self._known_or_raise(v)
        # every replica equals the fresh replay of its own logical log
        for h, r in sorted(self.live.items()):
            try:
                self._check_replay("finish.replay", self._pred(r), r)
            except Violation as v:
                self._known_or_raise(v)
            self.stats["fresh_replays"] += 1
        # durability: completed files not written since still load to the saved state
        for path, rec in sorted(self.disk.items()):
            if rec == "torn":
                continue
            status, res, _ = self._run_io(self._loader(rec, path), None)
            if status != "ok":
                self._known_or_raise(Violation("durability", "load." + rec["how"], rec["pred"], type(res).__name__, f"final re-load of {path} raised {type(res).__name__}: {str(res)[:160]}"))
                continue
            child = Replica(res, rec["tname"], rec["cls"], _copy.deepcopy(rec["log"]), "a0", "file")
            try:
                self._check_loaded("finish.load." + rec["how"], rec["pred"], rec, child, path)
            except Violation as v:
                self._known_or_raise(v)
            self.stats["finish.reloaded"] += 1
        # bounded recovery: after the last fault one clean save + load per replica passes spawn equivalence
        torn = sorted(p for p, rec in self.disk.items() if rec == "torn")
        for i, (h, r) in enumerate(sorted(self.live.items())):
            path = torn[i % len(torn)] if torn else f"/sim/recover{i}.bin"
            status, res, _ = self._run_io(self._saver(r.real, "save", path), None)
            if status != "ok":
                self._known_or_raise(Violation("crash", "save.save", self._pred(r), type(res).__name__, f"recovery save raised {type(res).__name__}"))
                continue
            status, res, _ = self._run_io(lambda: zoo.ir.load(path), None)
            if status != "ok":
                self._known_or_raise(Violation("durability", "load.save", self._pred(r), type(res).__name__, f"recovery load raised {type(res).__name__}"))
                continue
            child = Replica(res, r.tname, r.cls, r.log, r.owner, "file")
            try:
                self._spawn_equivalence("finish.recover", self._pred(r), (self._cheap(r), self._deep(r)), child, f"recovered copy of {h}")
            except Violation as v:
                self._known_or_raise(v)
            self.stats["finish.recovered"] += 1
            if torn:
                self.probes["recovery_over_torn_path"] += 1


def simplifiers(step):
    a = step.get("args", {})
    if isinstance(a.get("plan"), dict):
        p = a["plan"]
        if p.get("faults"):
            s = _copy.deepcopy(step)
            s["args"]["plan"]["faults"] = []
            yield s
        if p.get("short_write") or p.get("short_read"):
            s = _copy.deepcopy(step)
            s["args"]["plan"]["short_write"] = None
            s["args"]["plan"]["short_read"] = None
            yield s
        if p.get("eintr"):
            s = _copy.deepcopy(step)
            s["args"]["plan"]["eintr"] = None
            yield s
    if step["op"] == "mutate" and a["m"]["k"] == "assign" and len(a["m"]["values"]) > 1:
        for n in list(a["m"]["values"]):
            s = _copy.deepcopy(step)
            del s["args"]["m"]["values"][n]
            yield s
