"""
Reference model of an irispie Series: a map (serial, variant) -> float plus the *reported* span.

Pure numpy; imports nothing from irispie.  Element-wise results are produced by the same numpy ufunc
on aligned vectors, so numpy quirks (1**nan == 1, nan**0 == 1) are identical on both sides.

The reported span [lo, lo+n) is part of the state because several public operations are defined over
"the span of the series" (overlay, moving windows, fills, statistics).  The property constrains it
(cover always; tight after writes and binary arithmetic) but does not fix it after other operations,
so the world *learns* it from the real object after every step and checks the constraints.
"""

from __future__ import annotations

import math

import numpy as np

from ..kit import cal

NAN = float("nan")


class SM:
    __slots__ = ("freq", "nv", "cells", "lo", "n", "desc")

    def __init__(self, freq=None, nv=1, cells=None, lo=None, n=0, desc=""):
        self.freq = freq
        self.nv = nv
        self.cells = {}
        self.lo = lo
        self.n = n
        self.desc = desc
        if cells:
            for k, v in cells.items():
                v = np.asarray(v, dtype=float).reshape(nv)
                if not np.all(np.isnan(v)):
                    self.cells[int(k)] = v.copy()
        if not self.cells and lo is None:
            self.freq = freq

    # -- basic views ------------------------------------------------------------------------------
    def copy(self):
        m = SM(self.freq, self.nv, None, self.lo, self.n, self.desc)
        m.cells = {k: v.copy() for k, v in self.cells.items()}
        return m

    def get(self, t):
        v = self.cells.get(t)
        return v if v is not None else np.full(self.nv, np.nan)

    def rows(self):
        return range(self.lo, self.lo + self.n) if self.lo is not None else range(0)

    @property
    def hi(self):
        return self.lo + self.n - 1 if self.lo is not None else None

    def span(self):
        return (min(self.cells), max(self.cells)) if self.cells else None

    def arr(self, a, b):
        """rows a..b inclusive as (b-a+1, nv) array"""
        n = max(b - a + 1, 0)
        out = np.full((n, self.nv), np.nan)
        for t, v in self.cells.items():
            if a <= t <= b:
                out[t - a] = v
        return out

    def own(self):
        return self.arr(self.lo, self.lo + self.n - 1) if self.lo is not None else np.full((0, self.nv), np.nan)

    @property
    def is_empty(self):
        """No rows at all (the library's is_empty: data.size == 0)."""
        return self.n == 0 or self.lo is None

    def shape_class(self):
        if self.lo is None:
            return "empty"
        if self.n == 0:
            return "zombie"
        if not self.cells:
            return "allnan"
        return "data"

    def set_tight(self):
        sp = self.span()
        if sp is None:
            self.lo, self.n = None, 0
        else:
            self.lo, self.n = sp[0], sp[1] - sp[0] + 1

    def dump(self):
        return {
            "freq": self.freq, "nv": self.nv, "lo": self.lo, "n": self.n, "desc": self.desc,
            "cells": {str(k): [None if math.isnan(x) else float(x).hex() for x in v] for k, v in sorted(self.cells.items())},
        }


def from_array(freq, nv, start, a, desc=""):
    a = np.asarray(a, dtype=float).reshape(-1, nv)
    m = SM(freq, nv, {start + i: a[i] for i in range(a.shape[0])}, desc=desc)
    return m


class Exp:
    """Expected value of a receiver/result after an operation."""

    __slots__ = ("freq", "nv", "cells", "tight", "desc", "tol", "scale")

    def __init__(self, freq, nv, cells, tight=False, desc=None, tol=0.0, scale=0.0):
        # scale: magnitude of the inputs a reduction ran over.  Sums, means, interpolations and recurrences lose absolute
        # accuracy in proportion to the largest operand (cancellation), whatever the order of summation; their results are
        # compared to within tol * scale on top of the relative tolerance
        self.scale = scale
        self.freq = freq
        self.nv = nv
        self.cells = {}
        for k, v in cells.items():
            v = np.asarray(v, dtype=float).reshape(nv)
            if not np.all(np.isnan(v)):
                self.cells[int(k)] = v
        self.tight = tight
        self.desc = desc
        self.tol = tol

    def get(self, t):
        v = self.cells.get(t)
        return v if v is not None else np.full(self.nv, np.nan)

    def span(self):
        return (min(self.cells), max(self.cells)) if self.cells else None


def _from_rows(m: SM, lo, a, nv=None, **kw) -> Exp:
    nv = m.nv if nv is None else nv
    a = np.asarray(a, dtype=float).reshape(-1, nv)
    return Exp(m.freq, nv, {lo + i: a[i] for i in range(a.shape[0])}, **kw)


# --------------------------------------------------------------------------------------------------
# numpy function tables shared by world and model

def _sp():
    import scipy.special
    import scipy.stats
    return scipy


ELEMENTWISE_1 = {
    "log": np.log, "log2": np.log2, "log10": np.log10, "log1p": np.log1p, "exp": np.exp, "exp2": np.exp2,
    "expm1": np.expm1, "sqrt": np.sqrt, "abs": np.abs, "sign": np.sign, "sin": np.sin, "cos": np.cos,
    "tan": np.tan, "atan": np.arctan,
    "expit": lambda x: _sp().special.expit(x),
    "erf": lambda x: _sp().special.erf(x),
    "normal_cdf": lambda x: _sp().stats.norm.cdf(x),
    "asin": np.arcsin, "acos": np.arccos,
    "logistic": lambda x: _sp().special.expit(x),
    "erfinv": lambda x: _sp().special.erfinv(x),
    "erfc": lambda x: _sp().special.erfc(x),
    "erfcinv": lambda x: _sp().special.erfcinv(x),
    "normal_pdf": lambda x: _sp().stats.norm.pdf(x),
}
ELEMENTWISE_2 = {"round": np.round, "maximum": np.maximum, "minimum": np.minimum}

QUANTILES = {"quantile": (0.0, 0.25, 0.5, 1.0), "nanquantile": (0.0, 0.25, 0.5, 1.0),
             "percentile": (0, 10, 50, 100), "nanpercentile": (0, 10, 50, 100)}

STATS = ("sum", "prod", "mean", "median", "std", "var", "max", "min",
         "nansum", "nanprod", "nanmean", "nanmedian", "nanstd", "nanvar", "nanmax", "nanmin")

MOVING = {"mov_sum": np.sum, "mov_avg": np.mean, "mov_mean": np.mean, "mov_prod": np.prod}

BINOPS = {
    "add": np.add, "sub": np.subtract, "mul": np.multiply, "truediv": np.true_divide,
    "pow": np.power, "floordiv": np.floor_divide, "mod": np.mod,
}

CHANGES = {
    "diff": lambda x, y: x - y,
    "diff_log": lambda x, y: np.log(x) - np.log(y),
    "pct": lambda x, y: 100 * (x / y - 1),
    "roc": lambda x, y: x / y,
}

# annualised changes over one period; a is the number of periods of the frequency in a year
ACHANGES = {
    "adiff": lambda a: (lambda x, y: a * (x - y)),
    "adiff_log": lambda a: (lambda x, y: a * (np.log(x) - np.log(y))),
    "apct": lambda a: (lambda x, y: 100 * ((x / y) ** a - 1)),
    "aroc": lambda a: (lambda x, y: (x / y) ** a),
}

# conversions between measures of change, value by value (the documented meaning of each name)
CONVERSIONS = {
    "roc_from_pct": lambda a: (lambda x: 1 + x / 100),
    "pct_from_roc": lambda a: (lambda x: 100 * (x - 1)),
    "pct_from_apct": lambda a: (lambda x: 100 * ((1 + x / 100) ** (1 / a) - 1)),
    "roc_from_apct": lambda a: (lambda x: (1 + x / 100) ** (1 / a)),
    "roc_from_aroc": lambda a: (lambda x: x ** (1 / a)),
}

# cumulation: the inverse of the change of the same name, y_t = f(y_{t-k}, x_t), started from `initial`
CUMULATIONS = {
    "cum_diff": (lambda y, x: y + x, 0.0),
    "cum_diff_log": (lambda y, x: y * np.exp(x), 0.0),
    "cum_pct": (lambda y, x: y * (1 + x / 100), 1.0),
    "cum_roc": (lambda y, x: y * x, 1.0),
}


def annual_factor(freq):
    return {"Y": 1, "H": 2, "Q": 4, "M": 12, "D": 365, "I": 1, None: 1}[freq]


# --------------------------------------------------------------------------------------------------
# transformers: SM (+ args) -> Exp

def t_set(m: SM, freq, dates, vids, value_at) -> Exp:
    """value_at(i, j) -> value for i-th date and j-th addressed variant"""
    cells = {k: v.copy() for k, v in m.cells.items()}
    for i, t in enumerate(dates):
        row = cells[t].copy() if t in cells else np.full(m.nv, np.nan)
        for j, c in enumerate(vids):
            row[c] = value_at(i, j)
        cells[t] = row
    return Exp(freq, m.nv, cells, tight=True)


def t_shift_int(m: SM, by: int) -> Exp:
    return Exp(m.freq, m.nv, {k - by: v for k, v in m.cells.items()})


def t_shift_kw(m: SM, kw: str) -> Exp:
    f = m.freq
    if kw == "yoy":
        return t_shift_int(m, -cal.FREQ_VALUE[f])
    if kw == "soy":
        return Exp(f, m.nv, {t: m.get(cal.soy(f, t)) for t in m.rows()})
    if kw == "eopy":
        return Exp(f, m.nv, {t: m.get(cal.eopy(f, t)) for t in m.rows()})
    if kw == "tty":
        out = {}
        for t in m.rows():
            s = cal.tty(f, t)
            out[t] = m.get(s) if s is not None else np.full(m.nv, np.nan)
        return Exp(f, m.nv, out)
    raise ValueError(kw)


def t_clip(m: SM, a, b) -> Exp:
    lo, hi = m.lo, m.hi
    a = lo if a is None or a < lo else a
    b = hi if b is None or b > hi else b
    return Exp(m.freq, m.nv, {k: v for k, v in m.cells.items() if a <= k <= b})


def _bcast(v, nv):
    return v if v.shape[0] == nv else np.repeat(v, nv)


def t_overlay(m: SM, o: SM) -> Exp:
    nv = max(m.nv, o.nv)
    cells = {k: _bcast(v, nv) for k, v in m.cells.items()}
    for t in o.rows():
        cells[t] = _bcast(o.get(t), nv)
    return Exp(m.freq or o.freq, nv, cells, tight=True)


def t_underlay(m: SM, o: SM) -> Exp:
    nv = max(m.nv, o.nv)
    cells = {k: _bcast(v, nv) for k, v in o.cells.items()}
    for t in m.rows():
        cells[t] = _bcast(m.get(t), nv)
    return Exp(m.freq or o.freq, nv, cells, tight=True)


def magnitude(*ms) -> float:
    """largest finite |value| held by the given models (0.0 when there is none)"""
    out = 0.0
    for m in ms:
        for v in m.cells.values():
            f = np.abs(v[np.isfinite(v)])
            if f.size:
                out = max(out, float(f.max()))
    return out


def t_rowwise(m: SM, func, nv=None, tol=0.0, scale=0.0) -> Exp:
    """func: (n, nv) array over the reported rows -> (n, nv') array"""
    if m.lo is None:
        return Exp(m.freq, m.nv if nv is None else nv, {}, tol=tol)
    a = func(m.own())
    a = np.asarray(a, dtype=float)
    nv = m.nv if nv is None else nv
    return _from_rows(m, m.lo, a.reshape(m.n, nv), nv=nv, tol=tol, scale=scale)


def reduction_scale(m: SM, name: str) -> float:
    g = magnitude(m)
    if "var" in name:
        return g * g * max(m.nv, 1)
    if "prod" in name:
        return 0.0          # products lose relative accuracy only
    return g * max(m.nv, 1)


def t_stat(m: SM, name: str, *args) -> Exp:
    f = getattr(np, name)
    return t_rowwise(m, lambda a: f(a, *args, axis=1).reshape(-1, 1), nv=1, tol=1e-9, scale=reduction_scale(m, name))


GENERIC_WINDOW_FUNCS = {"max": np.max, "min": np.min, "nansum": np.nansum, "std": np.std, "ptp": np.ptp}


def default_window(freq):
    """documented default of the moving-window functions: one year of periods, four where a year has no meaning"""
    v = cal.FREQ_VALUE.get(freq, 0) if freq is not None else 0
    return -v if v > 0 else -4


def t_moving(m: SM, name: str, window) -> Exp:
    f = MOVING[name] if name in MOVING else GENERIC_WINDOW_FUNCS[name]
    if window is None:
        window = default_window(m.freq)
    w = -window

    def func(a):
        pad = np.full((w - 1, m.nv), np.nan)
        b = np.vstack([pad, a])
        return np.array([f(b[i:i + w], axis=0) for i in range(a.shape[0])]).reshape(a.shape[0], m.nv)
    return t_rowwise(m, func, tol=1e-9, scale=reduction_scale(m, name) * max(w, 1))


def fill_column(col, method, const=None, src=None):
    col = col.copy()
    n = len(col)
    obs = [i for i in range(n) if not np.isnan(col[i])]
    if method == "constant":
        col[np.isnan(col)] = const
        return col
    if method == "from_series":
        idx = np.isnan(col)
        col[idx] = src[idx]
        return col
    if not obs:
        return col
    out = col.copy()
    for i in range(n):
        if not np.isnan(col[i]):
            continue
        prev = [j for j in obs if j <= i]
        nxt = [j for j in obs if j >= i]
        if method == "previous":
            out[i] = col[prev[-1]] if prev else np.nan
        elif method == "next":
            out[i] = col[nxt[0]] if nxt else np.nan
        elif method == "nearest":
            j = min(obs, key=lambda j: (abs(j - i), j))
            out[i] = col[j]
        elif method in ("linear", "log_linear"):
            if prev and nxt:
                p, q = prev[-1], nxt[0]
                if method == "linear":
                    out[i] = col[p] + (col[q] - col[p]) * ((i - p) / (q - p))
                else:
                    lp, lq = np.log(col[p]), np.log(col[q])
                    out[i] = np.exp(lp + (lq - lp) * ((i - p) / (q - p)))
            elif prev:
                out[i] = col[prev[-1]]
            elif nxt:
                out[i] = col[nxt[0]]
    return out


def t_fill(m: SM, method: str, const, src: SM | None, a, b) -> Exp:
    """fill over serials a..b (inclusive); result is a write of the filled block back over a..b"""
    cells = {k: v.copy() for k, v in m.cells.items()}
    if a is None:
        return Exp(m.freq, m.nv, cells, tight=True, tol=1e-9)
    block = m.arr(a, b)
    srcv = None
    if src is not None:
        srcv = src.arr(a, b).flatten()[: block.shape[0]] if src.nv == 1 else None
    new = np.column_stack([
        fill_column(block[:, v], method, const, srcv) for v in range(m.nv)
    ]) if block.shape[0] else block
    for i in range(block.shape[0]):
        cells[a + i] = new[i]
    return Exp(m.freq, m.nv, cells, tight=True, tol=1e-9, scale=magnitude(m) if method in ("linear", "log_linear") else 0.0)


def t_extrapolate(m: SM, coeffs, a, n, intercept, log) -> Exp:
    cells = {k: v.copy() for k, v in m.cells.items()}
    if m.lo is None or n <= 0:
        return Exp(m.freq, m.nv, cells, tight=True, tol=1e-8)
    p = len(coeffs)
    for v in range(m.nv):
        hist = {t: m.get(t)[v] for t in range(a - p, a)}
        if log:
            hist = {t: np.log(x) for t, x in hist.items()}
        for t in range(a, a + n):
            x = intercept + sum(coeffs[k] * hist[t - 1 - k] for k in range(p))
            hist[t] = x
        for t in range(a, a + n):
            row = cells[t] if t in cells else np.full(m.nv, np.nan)
            row = row.copy()
            row[v] = np.exp(hist[t]) if log else hist[t]
            cells[t] = row
    return Exp(m.freq, m.nv, cells, tight=True, tol=1e-8, scale=0.0 if log else (magnitude(m) + abs(intercept)) * max(len(coeffs), 1))


def t_nvar(m: SM, new_num: int) -> Exp:
    if new_num == m.nv:
        return Exp(m.freq, m.nv, m.cells)
    if new_num < m.nv:
        return Exp(m.freq, new_num, {k: v[:new_num] for k, v in m.cells.items()})
    add = new_num - m.nv
    return Exp(m.freq, new_num, {k: np.concatenate([v, np.repeat(v[-1:], add)]) for k, v in m.cells.items()})


def enc_span(*ms):
    los = [m.lo for m in ms if m.lo is not None]
    his = [m.hi for m in ms if m.lo is not None]
    if not los:
        return None, None
    return min(los), max(his)


def t_binop(a: SM, b: SM, func, tol=1e-12) -> Exp:
    lo, hi = enc_span(a, b)
    nv = max(a.nv, b.nv)
    freq = a.freq or b.freq
    if lo is None:
        return Exp(freq, nv, {}, tight=True)
    with np.errstate(all="ignore"):
        r = func(a.arr(lo, hi), b.arr(lo, hi))
    r = np.asarray(r, dtype=float).reshape(hi - lo + 1, nv)
    return Exp(freq, nv, {lo + i: r[i] for i in range(r.shape[0])}, tight=True, tol=tol)


def t_change(m: SM, name: str, shift) -> Exp:
    """x (op) shifted copy of x; all CHANGES functions are NaN-preserving, so reported spans do not matter"""
    e = t_shift_int(m, shift) if isinstance(shift, int) else t_shift_kw(m, shift)
    o = SM(m.freq, m.nv, e.cells)
    o.set_tight()
    return t_binop(m, o, CHANGES[name], tol=1e-9)


def t_achange(m: SM, name: str) -> Exp:
    e = t_shift_int(m, -1)
    o = SM(m.freq, m.nv, e.cells)
    o.set_tight()
    return t_binop(m, o, ACHANGES[name](annual_factor(m.freq)), tol=1e-9)


def t_convert(m: SM, name: str) -> Exp:
    return t_rowwise(m, CONVERSIONS[name](annual_factor(m.freq)), tol=1e-9)


def t_cum(m: SM, name: str, k: int, initial, a=None, b=None) -> Exp:
    """forward cumulation over serials a..b (default: the reported span) with lag k"""
    f, default = CUMULATIONS[name]
    init = default if initial is None else float(initial)
    a = m.lo if a is None else a
    b = m.hi if b is None else b
    y = {}
    if b >= a:
        for t in range(a - k, b + 1):
            y[t] = np.full(m.nv, init)
        for t in range(a, b + 1):
            y[t] = f(y.get(t - k, np.full(m.nv, np.nan)), m.get(t))
    return Exp(m.freq, m.nv, y, tol=1e-9, scale=(magnitude(m) + abs(init)) * max(m.n, 1) if name == "cum_diff" else 0.0)


def t_redate(m: SM, new_start: int) -> Exp:
    d = new_start - m.lo
    return Exp(m.freq, m.nv, {k + d: v for k, v in m.cells.items()})


def t_columns(m: SM, cols) -> Exp:
    cols = list(cols)
    return Exp(m.freq, len(cols), {k: v[cols] for k, v in m.cells.items()})


def t_hstack(first: SM, others) -> Exp:
    """others: list of SM or float"""
    ms = [first] + [o for o in others if isinstance(o, SM)]
    nv = first.nv + sum(o.nv if isinstance(o, SM) else 1 for o in others)
    freq = next((m.freq for m in ms if m.freq is not None), None)
    if all(m.is_empty for m in ms) and all(isinstance(o, SM) for o in others):
        return Exp(freq, nv, {}, tight=True)
    lo, hi = enc_span(*ms)
    if lo is None:
        return Exp(freq, nv, {}, tight=True)
    blocks = [first.arr(lo, hi)]
    for o in others:
        if isinstance(o, SM):
            blocks.append(o.arr(lo, hi))
        else:
            blocks.append(np.full((hi - lo + 1, 1), float(o)))
    r = np.hstack(blocks)
    return Exp(freq, nv, {lo + i: r[i] for i in range(r.shape[0])}, tight=True)


def t_call(m: SM, freq, dates, vids) -> Exp:
    cells = {}
    for t in dates:
        cells[t] = m.get(t)[list(vids)]
    return Exp(freq, len(vids), cells, tight=True)
