"""Hand-written mutants for C20 (models world)."""

MUTANTS = [
    {"name": "variant_copy_shares_levels", "edits": [("simultaneous/_variants.py", "                setattr(new, i, attr.copy(), )", "                setattr(new, i, attr if i == \"levels\" else attr.copy(), )")]},
    {"name": "simultaneous_copy_shares_invariant", "edits": [("simultaneous/main.py", "        new._invariant = self._invariant.copy()\n", "        new._invariant = self._invariant\n")]},
    {"name": "expand_variants_appends_same_object", "edits": [("has_variants.py", "            self._variants.append(self._variants[-1].copy(), )", "            self._variants.append(self._variants[-1], )")]},
    {"name": "setstate_forgets_std_map", "edits": [("simultaneous/_invariants.py", "        for k in self._serialized_slots:\n            setattr(self, k, state[k])\n        self._populate_derived_attributes()", "        for k in self._serialized_slots:\n            setattr(self, k, state[k] if k != \"_default_std\" else None)\n        self._populate_derived_attributes()")]},
    {"name": "setstate_no_derived_attributes", "edits": [("simultaneous/_invariants.py", "            setattr(self, k, state[k])\n        self._populate_derived_attributes()", "            setattr(self, k, state[k])")]},
    # (a shallow Solution.copy is behaviourally equivalent: the shared expansion memo holds the same matrices for
    #  both owners until one of them re-solves, which replaces the Solution object - not listed)
    {"name": "expansion_memo_truncated_wrongly", "edits": [("fords/solutions.py", "    return [R0, ] + existing_expansion[:forward]\n    #", "    return [R0, ] + existing_expansion[-forward:] if forward else [R0, ]\n    #")]},
    {"name": "exhaust_then_last_repeats_first", "edits": [("conveniences/iterators.py", "    last = default\n    for item in iterable:\n        yield item\n        last = item\n", "    last = default\n    for item in iterable:\n        yield item\n        last = item if last is default else last\n")]},
    {"name": "save_appends", "edits": [("file_io.py", "    with open(file_name, \"wb\", ) as fid:\n        _dl.dump(object_to_save, fid, )\n\n\ndef load(", "    with open(file_name, \"ab\", ) as fid:\n        _dl.dump(object_to_save, fid, )\n\n\ndef load(")]},
    # (sharing RedVAR Variant.system between copy and original is behaviourally equivalent: estimate() replaces
    #  the System object, nothing mutates its arrays in place - not listed)
    {"name": "sequential_copy_returns_self", "edits": [("sequentials/main.py", "        return _co.deepcopy(self, )\n\n    @classmethod\n    @_dm.reference(category=\"constructor\", call_name=\"Sequential.from_file\", )", "        return self\n\n    @classmethod\n    @_dm.reference(category=\"constructor\", call_name=\"Sequential.from_file\", )")]},
    {"name": "shrink_variants_keeps_last", "edits": [("has_variants.py", "            self._variants[0:new_num]\n", "            self._variants[-new_num:]\n")]},
    {"name": "sequential_variant_copy_shallow", "edits": [("sequentials/_variants.py", "        return _co.deepcopy(self, )", "        return _co.copy(self, )")]},
    {"name": "save_swallows_oserror", "edits": [("file_io.py", "    with open(file_name, \"wb\", ) as fid:\n        _dl.dump(object_to_save, fid, )\n\n\ndef load(", "    try:\n        with open(file_name, \"wb\", ) as fid:\n            _dl.dump(object_to_save, fid, )\n    except OSError:\n        pass\n\n\ndef load(")]},
    {"name": "portable_drops_description", "edits": [("simultaneous/_invariants.py", "            \"description\": str(self.get_description()),", "            \"description\": \"\",")]},
    {"name": "assign_enforces_rules_on_first_variant_only", "edits": [("simultaneous/_assigns.py", "            variant.update_values_from_dict(values, )\n            self._enforce_assignment_rules(variant, )", "            variant.update_values_from_dict(values, )\n            self._enforce_assignment_rules(self._variants[0], )")]},
    {"name": "solve_reuses_first_variant_system", "edits": [("simultaneous/main.py", "        system = self._systemize(\n            variant,\n            self._invariant.dynamic_descriptor,", "        system = self._systemize(\n            variant if vid < 2 else self._variants[1],\n            self._invariant.dynamic_descriptor,")]},
]
