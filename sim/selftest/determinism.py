"""
Determinism self-test of the simulator (not a property check).

For each requested property: run the same N run seeds
  (a) with 4 workers,
  (b) with 16 workers (so every run lands in a different process, at a different position in it),
  (c) with 16 workers again,
and require the SHA-256 event-log digests (seq, actor, op, args digest, outcome, state fingerprint)
to be identical run by run.  Then (d) run them under a different set of PYTHONHASHSEED values
(VERIF_HASHSEED_SALT) and require the *verdicts* to be the same; digests are also compared and the
number of differing ones reported (set-iteration order may legitimately reorder names inside irispie).

Usage: /venv/bin/python -m sim.selftest.determinism [C10 ...] [--runs N]
"""

import json
import os
import subprocess
import sys
import tempfile

VERIF = os.path.dirname(os.path.dirname(os.path.dirname(os.path.abspath(__file__))))


def batch(prop, runs, jobs, extra_env=None):
    fd, path = tempfile.mkstemp(suffix=".json", prefix="irsim-det-")
    os.close(fd)
    env = dict(os.environ)
    env.update(extra_env or {})
    cp = subprocess.run([os.path.join(VERIF, "check"), prop, "--tier", "quick", "--runs", str(runs), "--jobs", str(jobs),
                         "--emit-digests", path, "--no-evidence"], cwd=VERIF, env=env, capture_output=True, text=True, timeout=3600)
    with open(path) as f:
        d = json.load(f)
    os.unlink(path)
    verdict = [l for l in cp.stdout.splitlines() if l.startswith(("VIOLATION", "KNOWN-FINDING", "HARNESS-ERROR"))]
    verdict = sorted(l.split(" replay=")[0].split(" [signature")[0] for l in verdict)
    return d, cp.returncode, verdict


def main():
    args = [a for a in sys.argv[1:] if not a.startswith("--")]
    runs = 64
    if "--runs" in sys.argv:
        runs = int(sys.argv[sys.argv.index("--runs") + 1])
        args = [a for a in args if a != str(runs)]
    props = args or ["C10"]
    ok = True
    for prop in props:
        a, rca, va = batch(prop, runs, 4)
        b, rcb, vb = batch(prop, runs, 16)
        c, rcc, vc = batch(prop, runs, 16)
        d, rcd, vd = batch(prop, runs, 16, {"VERIF_HASHSEED_SALT": "other"})
        same_ab = a == b and len(a) == runs
        same_bc = b == c
        diff_d = sum(1 for k in a if a[k] != d.get(k))
        print(f"{prop}: runs={len(a)} digests 4-vs-16 workers identical={same_ab} 16-vs-16 identical={same_bc} "
              f"exit codes {rca},{rcb},{rcc},{rcd}; other hash seeds: {diff_d} digests differ, verdict same={va == vd}")
        if not (same_ab and same_bc and rca == rcb == rcc == rcd and va == vb == vc == vd):
            ok = False
            for k in sorted(a, key=int):
                if a[k] != b.get(k) or b.get(k) != c.get(k):
                    print("  first differing run index:", k)
                    break
            print("  verdicts:", va, vb, vc, vd)
    print("DETERMINISM", "OK" if ok else "FAILED")
    return 0 if ok else 1


if __name__ == "__main__":
    sys.exit(main())
