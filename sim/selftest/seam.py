"""Self-test of the OS seam: common ways of reaching a file (temporary files, raw descriptor I/O, shutil, pathlib, fsync) on the simulated disk.
usage: PYTHONPATH=/verif:/repo/src /venv/bin/python -m sim.selftest.seam  (prints OK/ERR per idiom, exits 1 on any ERR)"""
import sys, traceback, os, tempfile, shutil
sys.path.insert(0, os.path.dirname(os.path.dirname(os.path.dirname(os.path.abspath(__file__)))))
from sim.kit import simfs
fs = simfs.SimFS(); simfs.install(fs)
fs.begin_step({"buffer": 64, "short_write": None, "short_read": None, "faults": []})
FAILED = []


def t(name, f):
    try:
        f(); print("OK ", name)
    except Exception as e:
        FAILED.append(name)
        print("ERR", name, type(e).__name__, e)
def a():
    fd, name = tempfile.mkstemp(dir="/sim", prefix="x", suffix=".part")
    with os.fdopen(fd, "w") as f: f.write("hello")
    os.replace(name, "/sim/target.csv")
    assert bytes(fs.files["/sim/target.csv"]) == b"hello"
t("mkstemp+fdopen+replace", a)
def b():
    with tempfile.NamedTemporaryFile("w", dir="/sim", delete=False) as f:
        f.write("world"); name = f.name
    os.replace(name, "/sim/t2.csv"); assert bytes(fs.files["/sim/t2.csv"]) == b"world"
t("NamedTemporaryFile", b)
def c():
    fd = os.open("/sim/raw.bin", os.O_WRONLY|os.O_CREAT|os.O_TRUNC, 0o644)
    os.write(fd, b"abc"); os.write(fd, b"def"); os.close(fd)
    assert bytes(fs.files["/sim/raw.bin"]) == b"abcdef"
t("os.write", c)
def d():
    fd = os.open("/sim/raw.bin", os.O_RDONLY)
    assert os.read(fd, 4) == b"abcd"; os.lseek(fd, 0, 0); assert os.read(fd, 2) == b"ab"; os.close(fd)
t("os.read/lseek", d)
def e():
    shutil.copyfile("/sim/raw.bin", "/sim/copy.bin"); assert bytes(fs.files["/sim/copy.bin"]) == b"abcdef"
t("shutil.copyfile", e)
def f():
    shutil.move("/sim/copy.bin", "/sim/moved.bin"); assert "/sim/moved.bin" in fs.files
t("shutil.move", f)
def g():
    import pathlib
    p = pathlib.Path("/sim/pl.txt"); p.write_text("zz"); assert p.read_text() == "zz"; assert p.exists(); p.unlink(); assert not p.exists()
t("pathlib write/read/unlink", g)
def h():
    import pathlib
    p = pathlib.Path("/sim/raw.bin"); q = p.with_suffix(".bak"); p.replace(q); assert q.exists()
t("pathlib.replace", h)
def i():
    fd = os.open("/sim/d.bin", os.O_WRONLY|os.O_CREAT, 0o644); fd2 = os.dup(fd); os.close(fd); os.write(fd2, b"x"); os.close(fd2)
t("os.dup", i)
def j():
    with open("/sim/e.txt", "w") as fh:
        fh.write("abc"); fh.flush(); os.fsync(fh.fileno())
    assert os.path.getsize("/sim/e.txt") == 3 and os.stat("/sim/e.txt").st_size == 3
t("fsync/getsize", j)

def k():
    import fcntl
    fd = os.open("/sim/l.bin", os.O_WRONLY | os.O_CREAT, 0o666)
    fcntl.flock(fd, fcntl.LOCK_EX | fcntl.LOCK_NB); os.ftruncate(fd, 0)
    f = os.fdopen(fd, "wb", closefd=False); f.write(b"locked"); f.flush(); f.close()
    assert os.fstat(fd).st_size == 6
    fcntl.flock(fd, fcntl.LOCK_UN); os.close(fd)
    assert bytes(fs.files["/sim/l.bin"]) == b"locked"
t("flock + ftruncate + fdopen(closefd=False)", k)
sys.exit(1 if FAILED else 0)
