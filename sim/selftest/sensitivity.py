"""
Sensitivity self-test: apply hand-written mutants (realistic one-line regressions, all of which still
import) to a scratch copy of the package OUTSIDE /repo and /verif, run the quick check against the
copy (VERIF_REPO), and require a VIOLATION; the unmodified copy must pass.

Usage: /venv/bin/python -m sim.selftest.sensitivity C10 [--only name] [--runs N] [--jobs J]
Scratch copies live under $TMPDIR/irsim-mut-* and are removed immediately.
"""

import importlib
import os
import shutil
import subprocess
import sys
import tempfile

VERIF = os.path.dirname(os.path.dirname(os.path.dirname(os.path.abspath(__file__))))
REPO = os.environ.get("VERIF_REPO", "/repo")


def make_copy():
    d = tempfile.mkdtemp(prefix="irsim-mut-", dir=os.environ.get("TMPDIR", "/tmp"))
    shutil.copytree(os.path.join(REPO, "src"), os.path.join(d, "src"),
                    ignore=shutil.ignore_patterns("__pycache__", "*.pyc"))
    return d


def apply(copy, mutant):
    for rel, old, new in mutant["edits"]:
        p = os.path.join(copy, "src", "irispie", rel)
        s = open(p).read()
        if s.count(old) != 1:
            raise SystemExit(f"mutant {mutant['name']}: pattern occurs {s.count(old)}x in {rel}")
        open(p, "w").write(s.replace(old, new))


def run_check(prop, copy, runs, jobs, extra_env=None):
    env = dict(os.environ)
    env.update(extra_env or {})
    env["VERIF_REPO"] = copy
    rdir = os.path.join(copy, "replays")
    os.makedirs(rdir, exist_ok=True)
    env["VERIF_REPLAY_DIR"] = rdir
    cmd = [os.path.join(VERIF, "check"), prop, "--tier", "quick", "--no-evidence", "--jobs", str(jobs)]
    if runs:
        cmd += ["--runs", str(runs)]
    cp = subprocess.run(cmd, cwd=VERIF, env=env, capture_output=True, text=True, timeout=3600)
    return cp


def main():
    prop = sys.argv[1]
    only = sys.argv[sys.argv.index("--only") + 1] if "--only" in sys.argv else None
    runs = int(sys.argv[sys.argv.index("--runs") + 1]) if "--runs" in sys.argv else None
    jobs = int(sys.argv[sys.argv.index("--jobs") + 1]) if "--jobs" in sys.argv else 16
    mod = importlib.import_module(f"sim.selftest.mutants_{prop.lower()}")
    mutants = [m for m in mod.MUTANTS if only is None or m["name"] == only]
    results = []
    if only is None:
        c = make_copy()
        try:
            cp = run_check(prop, c, runs, jobs)
            print(f"[baseline copy] exit={cp.returncode} {cp.stdout.strip().splitlines()[-1]}")
            if cp.returncode != 0:
                print(cp.stdout[-2000:])
                return 1
        finally:
            shutil.rmtree(c, ignore_errors=True)
    for m in mutants:
        c = make_copy()
        try:
            apply(c, m)
            cp = run_check(prop, c, runs, jobs, m.get("env"))
            sigs = sorted({l.split("signature=")[1].split(" run_index")[0] for l in cp.stdout.splitlines() if "signature=" in l})
            caught = cp.returncode == 1
            results.append((m["name"], caught))
            print(f"[{'CAUGHT' if caught else 'MISSED'}] {m['name']}: exit={cp.returncode} {'; '.join(sigs)[:300]}")
            if cp.returncode == 2:
                print(cp.stdout[-1500:])
        finally:
            shutil.rmtree(c, ignore_errors=True)
    missed = [n for n, ok in results if not ok]
    print(f"SENSITIVITY {prop}: {len(results) - len(missed)}/{len(results)} mutants caught; missed: {missed}")
    return 0 if not missed else 1


if __name__ == "__main__":
    sys.exit(main())
