"""Debug helper: run one generated run (by index) printing every step before it is applied."""
import json, os, sys, faulthandler


def main():
    prop, idx = sys.argv[1], int(sys.argv[2])
    tier = sys.argv[3] if len(sys.argv) > 3 else "quick"
    from sim import worker
    from sim.kit import core
    faulthandler.enable()
    worker.pin_environment()
    mod, world_cls = worker.load_world(prop)
    known = core.KnownFindings(os.path.join(worker.VERIF, "KNOWN_FINDINGS.jsonl"), prop)
    rseed = core.run_seed(int(os.environ.get("VERIF_SEED", "0")), prop, idx)
    orig = world_cls.apply

    def apply(self, step):
        sys.stderr.write("STEP " + json.dumps(step, default=core._canon_default)[:400] + "\n")
        sys.stderr.flush()
        out = orig(self, step)
        sys.stderr.write("  -> " + out + "\n")
        return out
    world_cls.apply = apply
    res = core.execute(world_cls, rseed, tier, known)
    sys.stderr.write(f"cfg {json.dumps(res.cfg)[:600]}\nviolation {res.violation}\n")


if __name__ == "__main__":
    main()
