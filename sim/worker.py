"""
Worker process: executes a deterministic slice of simulated runs (or one replay file) in a fresh
interpreter whose PYTHONHASHSEED was chosen by the launcher, and writes one JSON summary.

The wall clock is read only here, to stop at the batch deadline and to cap the minimiser; it never
influences what a run does.
"""

from __future__ import annotations

import argparse
import collections
import faulthandler
import json
import os
import subprocess
import sys
import time as _time

_monotonic = _time.monotonic

VERIF = os.path.dirname(os.path.dirname(os.path.abspath(__file__)))

WORLDS = {
    "C10": ("sim.worlds.series", "SeriesWorld"),
    "C09": ("sim.worlds.dates", "DatesWorld"),
    "C19": ("sim.worlds.databox", "DataboxWorld"),
    "C20": ("sim.worlds.models", "ModelsWorld"),
}


def load_world(prop):
    import importlib
    modname, clsname = WORLDS[prop]
    mod = importlib.import_module(modname)
    return mod, getattr(mod, clsname)


def quiet_stdout():
    """irispie prints iteration tables and banners; keep fd 1 for nothing, protocol goes to files."""
    sys.stdout.flush()
    devnull = os.open(os.devnull, os.O_WRONLY)
    os.dup2(devnull, 1)
    os.close(devnull)


class _NoClock:
    """
    Stands in for the `time` module inside irispie.progress_bars (the only clock reader in the package,
    display only): a logical clock that advances by one second per read, so nothing depends on wall time.
    """

    def __init__(self):
        self.now = 1_600_000_000.0
        self.reads = 0

    def time(self):
        self.reads += 1
        self.now += 1.0
        return self.now

    def __getattr__(self, name):
        raise RuntimeError(f"sim: wall clock read on a simulated path (time.{name})")


def pin_environment():
    import warnings
    warnings.filterwarnings("ignore")
    import irispie.progress_bars as pb
    if os.environ.get("VERIF_ALLOW_CLOCK") != "1":
        pb._tm = _NoClock()


def repo_revision(repo):
    try:
        rev = subprocess.run(["git", "-C", repo, "rev-parse", "HEAD"], capture_output=True, text=True, timeout=20).stdout.strip()
        st = subprocess.run(["git", "-C", repo, "status", "--porcelain", "--untracked-files=no"], capture_output=True, text=True, timeout=20).stdout
        return rev, bool(st.strip())
    except Exception:
        return "unknown", False


def indices_for(worker, jobs, nhash):
    """Run indices of this worker: run i uses hash-seed slot i % nhash regardless of the worker count."""
    g = worker % nhash
    members = [w for w in range(jobs) if w % nhash == g]
    k = members.index(worker)
    kg = len(members)
    m = k
    while True:
        yield g + nhash * m
        m += kg


def trim_trace(trace, limit=14):
    if len(trace) <= limit:
        return trace
    return trace[:limit] + [{"op": "...", "omitted": len(trace) - limit}]


def limit_memory():
    """A run that allocates without bound (a garbage file parsed into periods millennia apart) gets MemoryError, not the OOM killer."""
    try:
        import resource
        cap = int(os.environ.get("VERIF_WORKER_MEM_GB", "6")) * (1 << 30)
        resource.setrlimit(resource.RLIMIT_AS, (cap, cap))
    except Exception:
        pass


def do_run(args):
    from sim.kit import core
    faulthandler.enable()
    limit_memory()
    quiet_stdout()
    pin_environment()
    mod, world_cls = load_world(args.prop)
    known = core.KnownFindings(os.path.join(VERIF, "KNOWN_FINDINGS.jsonl"), args.prop)
    agg = {
        "worker": args.worker, "runs": 0, "steps": 0, "nontrivial_runs": 0,
        "stats": collections.Counter(), "probes": collections.Counter(), "faults": collections.Counter(),
        "known_hits": collections.Counter(), "known_examples": {},
        "signatures": set(), "interleavings": set(), "states": set(), "states_capped": False,
        "digests": {}, "violations": [], "samples": [], "hashseed": os.environ.get("PYTHONHASHSEED"),
        "harness_errors": [],
    }
    seen_sigs = set()
    deadline = _monotonic() + args.budget if args.budget else None
    # backstop behind the per-step cap of core.execute (which turns a hang into a `hang` violation with a replay file):
    # a hang inside C code that no signal handler can interrupt ends the worker here, as a harness error
    run_cap = max(args.run_wall_cap, 1.5 * float(os.environ.get("VERIF_STEP_CAP_S", "") or world_cls.STEP_CAP))
    for idx in indices_for(args.worker, args.jobs, args.nhash):
        if args.count is not None and idx >= args.count:
            break
        if deadline is not None and _monotonic() > deadline:
            break
        if len(agg["violations"]) >= 3:
            break
        rseed = core.run_seed(args.verif_seed, args.prop, idx)
        if os.environ.get("VERIF_TRACE_RUNS"):
            sys.stderr.write(f"RUN {idx} seed {rseed}\n")
            sys.stderr.flush()
        faulthandler.dump_traceback_later(run_cap, exit=True)
        try:
            res = core.execute(world_cls, rseed, args.tier, known)
        except core.HarnessError as e:
            agg["harness_errors"].append({"index": idx, "rseed": rseed, "error": str(e)[:500]})
            faulthandler.cancel_dump_traceback_later()
            break
        except Exception as e:  # a bug in the harness, never a verdict
            import traceback
            agg["harness_errors"].append({"index": idx, "rseed": rseed, "error": traceback.format_exc()[-1500:]})
            faulthandler.cancel_dump_traceback_later()
            break
        faulthandler.cancel_dump_traceback_later()
        agg["runs"] += 1
        agg["steps"] += res.nsteps
        agg["stats"].update(res.stats)
        agg["probes"].update(res.probes)
        agg["faults"].update(res.faults_fired)
        for sig, n in res.known_hits.items():
            agg["known_hits"]["|".join(sig)] += n
            agg["known_examples"].setdefault("|".join(sig), res.known_examples.get(sig))
        if res.nontrivial:
            agg["nontrivial_runs"] += 1
            agg["signatures"].add(res.signature)
        agg["interleavings"].add(res.interleaving)
        if len(agg["states"]) < 400000:
            agg["states"].update(res.abstract_states)
        else:
            agg["states_capped"] = True
        if args.emit_digests:
            agg["digests"][str(idx)] = res.digest
        if len(agg["samples"]) < 2 and res.nontrivial and res.violation is None:
            agg["samples"].append({"run_index": idx, "run_seed": rseed, "hashseed": agg["hashseed"],
                                   "cfg": {k: v for k, v in res.cfg.items() if k != "weights"},
                                   "outcomes": res.outcomes[:14], "trace": trim_trace(res.trace)})
        if res.violation is not None:
            v = res.violation
            if v.signature in seen_sigs:
                continue
            seen_sigs.add(v.signature)
            rec = report_violation(args, core, mod, world_cls, known, idx, rseed, res)
            agg["violations"].append(rec)
    out = dict(agg)
    for k in ("stats", "probes", "faults", "known_hits"):
        out[k] = dict(out[k])
    out["signatures"] = sorted(out["signatures"])
    out["interleavings"] = sorted(out["interleavings"])
    out["states"] = sorted(out["states"])
    with open(args.out, "w") as f:
        json.dump(out, f)


def report_violation(args, core, mod, world_cls, known, idx, rseed, res):
    v = res.violation
    simp = getattr(mod, "simplifiers", None)
    mtrace, mv, runs = core.minimise(world_cls, res.cfg, res.trace, v, known, budget_runs=400,
                                     simplifiers=simp, clock=_monotonic, budget_s=60.0)
    if mv is None:
        # the violation did not reproduce in-process from its own trace: report as harness problem
        mtrace, mv = res.trace, v
        reproduced_inproc = False
    else:
        reproduced_inproc = True
    rev, dirty = repo_revision(os.environ.get("VERIF_REPO", "/repo"))
    rdir = os.environ.get("VERIF_REPLAY_DIR") or os.path.join(VERIF, "replays")
    os.makedirs(rdir, exist_ok=True)
    path = os.path.join(rdir, f"{args.prop}-{args.verif_seed}-{idx}.json")
    doc = {
        "property": args.prop, "verif_seed": args.verif_seed, "run_index": idx, "run_seed": rseed,
        "hashseed": os.environ.get("PYTHONHASHSEED"), "tier": args.tier, "cfg": res.cfg,
        "trace": mtrace, "violation": mv.to_json(), "signature": list(mv.signature),
        "original_trace_length": len(res.trace), "minimiser_runs": runs,
        "repo_revision": rev, "repo_dirty": dirty,
    }
    with open(path, "w") as f:
        json.dump(doc, f, indent=1, default=core._canon_default)
    # confirm in a fresh interpreter with the recorded hash seed
    env = dict(os.environ)
    cp = subprocess.run([sys.executable, "-W", "ignore", "-m", "sim.worker", "replay", "--file", path],
                        cwd=VERIF, env=env, capture_output=True, text=True, timeout=300)
    fresh_ok = cp.returncode == 1 and "REPRODUCED" in cp.stderr
    return {"index": idx, "rseed": rseed, "replay": path, "signature": list(mv.signature),
            "message": mv.message, "reproduced_inproc": reproduced_inproc, "reproduced_fresh": fresh_ok,
            "steps": len(mtrace), "original_steps": len(res.trace), "fresh_stderr": cp.stderr[-400:]}


def do_replay(args):
    from sim.kit import core
    with open(args.file) as f:
        doc = json.load(f)
    want_hs = str(doc.get("hashseed"))
    if os.environ.get("PYTHONHASHSEED") != want_hs and not os.environ.get("VERIF_REPLAY_REEXEC"):
        env = dict(os.environ)
        env["PYTHONHASHSEED"] = want_hs
        env["VERIF_REPLAY_REEXEC"] = "1"
        os.execve(sys.executable, [sys.executable, "-W", "ignore", "-m", "sim.worker", "replay", "--file", args.file], env)
    quiet_stdout()
    pin_environment()
    prop = doc["property"]
    mod, world_cls = load_world(prop)
    known = core.KnownFindings(os.path.join(VERIF, "KNOWN_FINDINGS.jsonl"), prop)
    res = core.execute(world_cls, doc["run_seed"], "replay", known, cfg=doc["cfg"], trace=doc["trace"])
    v = res.violation
    if v is not None and list(v.signature) == list(doc["signature"]):
        sys.stderr.write(f"REPRODUCED {prop} {v}\n")
        sys.exit(1)
    if v is not None:
        sys.stderr.write(f"DIFFERENT-VIOLATION {prop} {v}\n")
        sys.exit(3)
    sys.stderr.write(f"NOT-REPRODUCED {prop}\n")
    sys.exit(0)


def main():
    ap = argparse.ArgumentParser()
    sub = ap.add_subparsers(dest="cmd", required=True)
    r = sub.add_parser("run")
    r.add_argument("--prop", required=True)
    r.add_argument("--tier", default="quick")
    r.add_argument("--verif-seed", type=int, default=0)
    r.add_argument("--worker", type=int, required=True)
    r.add_argument("--jobs", type=int, required=True)
    r.add_argument("--nhash", type=int, required=True)
    r.add_argument("--count", type=int, default=None)
    r.add_argument("--budget", type=float, default=None)
    r.add_argument("--run-wall-cap", type=float, default=300.0)
    r.add_argument("--emit-digests", action="store_true")
    r.add_argument("--out", required=True)
    p = sub.add_parser("replay")
    p.add_argument("--file", required=True)
    args = ap.parse_args()
    if args.cmd == "run":
        do_run(args)
    else:
        do_replay(args)


if __name__ == "__main__":
    main()
