#!/bin/sh
# Offline setup: nothing to build or fetch.  Verify that the interpreter, the tree under test and the
# third-party packages the harness relies on are importable.
set -e
REPO="${VERIF_REPO:-/repo}"
cd "$(dirname "$0")"
PYTHONPATH="$REPO/src:$(pwd)" PYTHONDONTWRITEBYTECODE=1 /venv/bin/python -W ignore - <<PY
import os, sys
import numpy, scipy, dill
import irispie
src = os.path.realpath(os.path.join("$REPO", "src"))
assert os.path.realpath(irispie.__file__).startswith(src), (irispie.__file__, src)
import sim.kit.core, sim.worker
print("setup ok: irispie", irispie.__version__, "from", os.path.dirname(irispie.__file__), "numpy", numpy.__version__)
PY
